#!/venv/bin/python
"""Confirm a seeded change (mutant) and run checks against it.

    seeded_eval.py <mutant_dir> <name> <PROP>[,<PROP>...] [--in-repo] [--tier quick]

<mutant_dir> holds patch.diff, demo.py, meta.json (written by a sub-agent in its own scratch worktree).
By default everything is done in a fresh scratch git worktree of /repo under /tmp (removed afterwards) and the
checks are pointed at it with PACTI_VERIF_SRC; with --in-repo the patch is applied to /repo itself
(git -C /repo apply) and undone straight afterwards (git -C /repo checkout -- .).

Steps: demo on the clean tree (must exit 0) -> apply -> repository test-suite (must still be 144 passed) ->
demo (must exit 1) -> the named checks (quick tier) -> undo.  The confirmed mutant is stored as
/verif/seeded/<name>/ {patch.diff, demo.py, meta.json}.
"""
import json
import os
import re
import shutil
import subprocess
import sys
import tempfile
import time

VERIF = os.path.dirname(os.path.abspath(__file__))
PY = "/venv/bin/python"


def sh(cmd, **kw):
    return subprocess.run(cmd, shell=isinstance(cmd, str), capture_output=True, text=True, **kw)


def main():
    args = [a for a in sys.argv[1:] if not a.startswith("--")]
    mdir, name, props = args[0], args[1], args[2].split(",")
    in_repo = "--in-repo" in sys.argv
    tier = "quick"
    if "--tier" in sys.argv:
        tier = sys.argv[sys.argv.index("--tier") + 1]
    patch = os.path.abspath(os.path.join(mdir, "patch.diff"))
    demo = os.path.abspath(os.path.join(mdir, "demo.py"))
    meta = {}
    try:
        meta = json.load(open(os.path.join(mdir, "meta.json")))
    except Exception:
        pass
    if in_repo:
        tree = "/repo"
    else:
        tree = tempfile.mkdtemp(prefix="sw_%s_" % name, dir="/tmp")
        os.rmdir(tree)
        r = sh(["git", "-C", "/repo", "worktree", "add", "-q", "--detach", tree, "HEAD"])
        if r.returncode:
            print("worktree failed", r.stderr)
            return 2
    report = {"name": name, "properties": props, "tree": "in-repo" if in_repo else "scratch worktree", "ran": []}
    ok = True
    try:
        env = dict(os.environ, SRC=os.path.join(tree, "src"), PYTHONPATH=os.path.join(tree, "src"))
        r = sh(["git", "-C", tree, "apply", "--check", patch])
        report["applies"] = r.returncode == 0
        if r.returncode:
            print("PATCH DOES NOT APPLY:", r.stderr[:500])
            return 2
        r = sh([PY, demo], env=env, cwd=tree, timeout=900)
        report["demo_clean_exit"] = r.returncode
        report["ran"].append("demo on clean tree -> exit %d" % r.returncode)
        sh(["git", "-C", tree, "apply", patch])
        try:
            r = sh("cd %s && PYTHONPATH=%s/src %s -m pytest -q -p no:cacheprovider --timeout=900 2>&1 | tail -3" % (
                tree, tree, PY), timeout=1800)
            m = re.search(r"(\d+) passed", r.stdout)
            failed = re.search(r"(\d+) failed", r.stdout)
            report["suite"] = r.stdout.strip().splitlines()[-1] if r.stdout.strip() else "?"
            report["suite_ok"] = bool(m and int(m.group(1)) == 144 and not failed)
            report["ran"].append("test-suite with the change -> %s" % report["suite"])
            r = sh([PY, demo], env=env, cwd=tree, timeout=900)
            report["demo_mutant_exit"] = r.returncode
            report["ran"].append("demo with the change -> exit %d" % r.returncode)
            report["checks"] = {}
            for p in props:
                e2 = dict(os.environ)
                if not in_repo:
                    e2["PACTI_VERIF_SRC"] = os.path.join(tree, "src")
                t0 = time.time()
                r = sh([PY, "-m", "pvm.check", p, "--tier", tier, "--no-evidence"], env=e2, cwd=VERIF, timeout=7200)
                lines = [ln for ln in r.stdout.splitlines() if ln.startswith(("VIOLATION", "  mechanism", "INCONCL",
                                                                              "KNOWN"))]
                report["checks"][p] = {"exit": r.returncode, "wall_s": round(time.time() - t0, 1),
                                       "lines": [ln[:400] for ln in lines[:6]]}
                report["ran"].append("pvm.check %s --tier %s -> exit %d" % (p, tier, r.returncode))
        finally:
            if in_repo:
                sh(["git", "-C", "/repo", "checkout", "--", "."])
    finally:
        if not in_repo:
            sh(["git", "-C", "/repo", "worktree", "remove", "--force", tree])
            shutil.rmtree(tree, ignore_errors=True)
    confirmed = report.get("demo_clean_exit") == 0 and report.get("suite_ok") and report.get("demo_mutant_exit") == 1
    report["confirmed"] = bool(confirmed)
    detected = [p for p, c in report.get("checks", {}).items() if c["exit"] == 1]
    report["detected_by"] = detected
    out = os.path.join(VERIF, "seeded", name)
    if confirmed and "--no-store" not in sys.argv:
        os.makedirs(out, exist_ok=True)
        shutil.copy(patch, os.path.join(out, "patch.diff"))
        shutil.copy(demo, os.path.join(out, "demo.py"))
        m2 = {"property": meta.get("property", props[0]), "summary": meta.get("summary"), "needs": meta.get("needs"),
              "files": meta.get("files"), "author": "independent sub-agent (saw only the property text)",
              "confirmation": report}
        json.dump(m2, open(os.path.join(out, "meta.json"), "w"), indent=1)
    print(json.dumps({k: report[k] for k in ("name", "confirmed", "detected_by", "suite", "demo_clean_exit",
                                             "demo_mutant_exit") if k in report}))
    for p, c in report.get("checks", {}).items():
        print("  %s exit=%d %.0fs %s" % (p, c["exit"], c["wall_s"], " | ".join(c["lines"][:2])[:300]))
    return 0


if __name__ == "__main__":
    sys.exit(main())
