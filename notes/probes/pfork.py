import sys, os, pickle, time, json
sys.path.insert(0,'/repo/src')
from pacti.contracts import PolyhedralIoContract as PC
import threading
print('threads after import', threading.active_count())
d1={"input_vars":["i"],"output_vars":["m"],"assumptions":[{"constant":2.0,"coefficients":{"i":1.0}}],"guarantees":[{"constant":1.0,"coefficients":{"m":1.0,"i":-1.0}}]}
d2={"input_vars":["m"],"output_vars":["o"],"assumptions":[{"constant":4.0,"coefficients":{"m":1.0}}],"guarantees":[{"constant":1.0,"coefficients":{"o":1.0,"m":-2.0}}]}
t=time.time(); outs=set()
for k in range(200):
    r,w=os.pipe()
    pid=os.fork()
    if pid==0:
        os.close(r)
        c=PC.from_dict(d1).compose(PC.from_dict(d2))
        os.write(w,json.dumps(c.to_machine_dict(),sort_keys=True).encode()); os._exit(0)
    os.close(w); data=b''
    while True:
        b=os.read(r,65536)
        if not b: break
        data+=b
    os.close(r); os.waitpid(pid,0); outs.add(data)
print(len(outs),'distinct results; per fork ms',(time.time()-t)/200*1000)
