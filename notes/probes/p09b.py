from orc import *
from pacti.terms.polyhedra.serializer import polyhedral_termlist_from_string as parse
for s in ['|x| + |x| <= 2','2|x| + |x| <= 3','|x| + 2|x| <= 3','|x| + y <= |x| + 1','|x| <= 2 - |x|','|x|+|y|+|x| <= 4','(|x| + y) + (|x| - y) <= 2','2(|x|) <= 2','2(|x| + |x|) <= 2','|x| - |x| <= 1', '|x| >= -1', '-|x| >= -1', '0 <= |x|', '|x| = 0', '|x| <= 0', '|2| <= x', 'x <= 1e-3', '|x - y| + |y - x| <= 2', '|x - y| + |-x + y| <= 2', '3 <= 4', 'x - x <= 1', '0 x <= 1', '|0| <= 1', '|x-x| + y <= 1']:
    try: print(repr(s),'->',[str(t) for t in parse(s)])
    except Exception as e: print(repr(s),'EXC',type(e).__name__, str(e).splitlines()[:1])
