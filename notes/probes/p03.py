from orc import *
import collections
random.seed(int(sys.argv[1]) if len(sys.argv)>1 else 0)
N=int(sys.argv[2]) if len(sys.argv)>2 else 2000
VN=['a','b','c','d','e']
def rterm(vs,kmax=3):
    k=random.randint(1,min(kmax,len(vs)))
    sel=random.sample(vs,k)
    return PT({Var(v):random.choice([-3,-2,-1,1,2,3]) for v in sel}, random.randint(-5,8))
st=collections.Counter(); ex={}
for it in range(N):
    nv=random.randint(1,4); vs=VN[:nv]
    l=PTL([rterm(vs) for _ in range(random.randint(1,5))])
    r=PTL([rterm(vs) for _ in range(random.randint(1,3))])
    for (L,R,kind) in [(l,l,'refl'),(l,PTL(l.terms[:max(1,len(l.terms)//2)]),'sub'),(l,r,'rand')]:
        try: got=L.refines(R)
        except Exception as e:
            st[(kind,type(e).__name__)]+=1; ex.setdefault((kind,type(e).__name__),(str(L),str(R))); continue
        ns=names(L,R)
        lempty = sat(conj(L)) is None
        # exact containment
        strict = sat(conj(L), z3.Or([lhs(t)>q(t.constant) for t in R.terms])) 
        tolv = sat(box(ns),conj(L), anyviol(R))
        exact = strict is None
        cls = 'exactT' if exact else ('clearF' if tolv else 'band')
        st[(kind,cls,got, 'Lempty' if lempty else '')]+=1
        if (cls=='exactT' and not got) or (cls=='clearF' and got):
            ex.setdefault((kind,cls,got),(str(L),str(R)))
for k in sorted(st,key=str): print(k,st[k])
for k,v in ex.items(): print(k,v)
