exec(open('p05.py').read().split("import collections\nst=")[0])
import collections, itertools
st=collections.Counter()
OUT=['ideal','leftover','drop','verr','false']
# simplify with drop variant
def simp(self,context=None):
    o=W.next('simplify')
    if o=='verr': raise ValueError('infeasible')
    if o=='drop' and self.terms:
        res=SymTL(self.terms[1:])
        W.axioms.append(z3.Implies(z3.And(conj(context) if context else z3.BoolVal(True),conj(res)),conj(self)))
        return res
    return self.copy()
SymTL.simplify=simp
def mk2(name,ins,outs,na=1,ng=2):
    a=SymTL([Atom(f"A{name}{k}",[Var(v) for v in ins]) for k in range(na)]); g=SymTL([Atom(f"G{name}{k}",[Var(v) for v in ins+outs]) for k in range(ng)])
    return IoContract(a,g,[Var(v) for v in ins],[Var(v) for v in outs])
TOPS=[((['i'],['o']),(['i'],['m'])), ((['i'],['o','m']),(['i'],['m'])), ((['i','j'],['o']),(['j'],['m'])), ((['i'],['o']),(['x'],['y'])), ((['i'],['o']),(['i'],['o']))]
for script in itertools.product(OUT,repeat=5):
    for (tc,t1) in TOPS:
        W=World(['ideal','ideal']+list(script))
        C=mk2('C',*tc); c1=mk2('1',*t1)
        try: Q=C.quotient(c1)
        except IncompatibleArgsError: st['q-incompat']+=1; continue
        except ValueError: st['q-valueerror']+=1; continue
        ob=z3.Implies(z3.And(conj(C.a),z3.Implies(conj(c1.a),conj(c1.g)),z3.Implies(conj(Q.a),conj(Q.g))), z3.And(conj(c1.a),conj(Q.a),conj(C.g)))
        ok=valid(ob); st['q-sound' if ok else 'q-UNSOUND']+=1
        if not ok and st['q-UNSOUND']<4: print('UNSOUND',script,tc,t1,Q,W.log)
for script in itertools.product(['ideal','drop','verr'],repeat=3):
    for (tc,t1) in TOPS:
        W=World(list(script))
        try: C=mk2('C',*tc); c1=mk2('1',*t1); M=C.merge(c1)
        except IncompatibleArgsError: st['m-incompat']+=1; continue
        except ValueError: st['m-valueerror']+=1; continue
        obA=conj(M.a)==z3.And(conj(C.a),conj(c1.a)); obG=z3.And(conj(M.a),conj(M.g))==z3.And(conj(M.a),conj(C.g),conj(c1.g))
        # note: operand contracts themselves were simplified at construction: compare against operands' current fields
        ok=valid(z3.And(obA,obG)); st['m-sound' if ok else 'm-UNSOUND']+=1
        if not ok and st['m-UNSOUND']<4: print('M-UNSOUND',script,tc,t1,M,W.log)
print(st)
