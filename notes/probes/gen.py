from orc import *
from pacti.utils.errors import IncompatibleArgsError
def rterm(vs,kmax=3,must=None):
    k=random.randint(1,min(kmax,len(vs)))
    sel=random.sample(vs,k)
    if must and not (set(sel)&set(must)): sel[0]=random.choice(must)
    return PT({Var(v):random.choice([-3,-2,-1,1,2,3]) for v in sel}, random.randint(-4,9))
def rcontract(ins,outs,na=None,ng=None,bounded=False):
    na=random.randint(0,2) if na is None else na
    ng=random.randint(1,3) if ng is None else ng
    a=[rterm(ins,2) for _ in range(na)] if ins else []
    g=[rterm(ins+outs,3,must=outs) for _ in range(ng)] if outs else []
    if bounded:
        for v in ins:
            a.append(PT({Var(v):1},random.randint(3,9))); a.append(PT({Var(v):-1},random.randint(0,5)))
    try:
        return PC(PTL(a),PTL(g),[Var(v) for v in ins],[Var(v) for v in outs])
    except ValueError:
        return None
def honours(c,slack=1e-7):
    return z3.Implies(conj(c.a,slack), conj(c.g))
def cnames(*cs):
    out=[]
    for c in cs:
        for v in c.inputvars+c.outputvars:
            if v.name not in out: out.append(v.name)
    return out
def wiring():
    """returns (ins1,outs1,ins2,outs2)"""
    kind=random.choice(['indep','cascade','cascade_rev','shared_in','feedback','mixed'])
    if kind=='indep': return kind,['i1','i2'][:random.randint(1,2)],['o1'],['j1'],['p1','p2'][:random.randint(1,2)]
    if kind=='cascade': return kind,['i1','i2'][:random.randint(1,2)],['m1','m2'][:random.randint(1,2)]+(['o1'] if random.random()<.5 else []),['m1','m2'][:random.randint(1,2)]+(['j1'] if random.random()<.5 else []),['p1']
    if kind=='cascade_rev':
        k,a,b,c,d=wiring.__wrapped__('cascade') if False else ('cascade_rev',)+tuple(wiring_c())
        return k,c,d,a,b
    if kind=='shared_in': return kind,['s1','i1'],['o1'],['s1','j1'],['p1']
    if kind=='feedback': return kind,['i1','f2'],['f1','o1'],['f1','j1'],['f2','p1']
    if kind=='mixed': return kind,['i1','s1'],['m1','o1'],['m1','s1','j1'],['p1','p2']
def wiring_c():
    return ['i1','i2'][:random.randint(1,2)],['m1','m2'][:random.randint(1,2)]+(['o1'] if random.random()<.5 else []),['m1','m2'][:random.randint(1,2)]+(['j1'] if random.random()<.5 else []),['p1']
