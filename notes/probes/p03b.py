from orc import *
import numpy as np
from scipy.optimize import linprog
a,b=Var('a'),Var('b')
L=PTL([PT({a:2,b:-2},0),PT({a:2,b:-2},1),PT({b:-3},7)])
print(L.refines(L))
v,A,B,C,D=PTL.termlist_to_polytope(L,L)
for i in range(len(D)):
    cons=C[[i],:]
    res=linprog(c=-cons,A_ub=np.concatenate((A,cons),axis=0),b_ub=np.concatenate((B,[D[i]+1])),bounds=(None,None))
    print(i,res.status,repr(-res.fun),D[i], -res.fun<=D[i])
