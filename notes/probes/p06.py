from gen import *
import collections, itertools
from pacti.utils.lists import *
random.seed(int(sys.argv[1])); N=int(sys.argv[2])
st=collections.Counter(); ex={}
V=['v1','v2','v3','v4']
ROLES=['-','i','o']
def mk(ins,outs):
    # trivial-ish content mentioning every var
    a=[PT({Var(v):1},5) for v in ins if random.random()<.6]
    g=[PT({Var(v):1, **({Var(random.choice(ins)):-1} if ins and random.random()<.5 else {})},7) for v in outs]
    return PC(PTL(a),PTL(g),[Var(v) for v in ins],[Var(v) for v in outs])
for r1 in itertools.product(ROLES,repeat=4):
  for r2 in itertools.product(ROLES,repeat=4):
    i1=[v for v,r in zip(V,r1) if r=='i']; o1=[v for v,r in zip(V,r1) if r=='o']
    i2=[v for v,r in zip(V,r2) if r=='i']; o2=[v for v,r in zip(V,r2) if r=='o']
    c1=mk(i1,o1); c2=mk(i2,o2)
    # compose
    S=set
    exp_in=[v for v in i1+i2 if v not in o1+o2]; exp_out=[v for v in o1+o2 if not ((v in o1 and v in i2) or (v in o2 and v in i1))]
    shared_out=S(o1)&S(o2)
    cyc = (S(i1)&S(o2)) and (S(i2)&S(o1))
    drives = (S(o2)&S(v.name for v in c1.a.vars)) or (S(o1)&S(v.name for v in c2.a.vars))
    must_reject = bool(shared_out) or bool(cyc and drives)
    try:
        c=c1.compose(c2); out='ok'
    except IncompatibleArgsError: out='Incompat'
    except ValueError: out='ValueError'
    except Exception as e: out=type(e).__name__
    if out=='ok':
        good = S(v.name for v in c.inputvars)==S(exp_in) and S(v.name for v in c.outputvars)==S(exp_out) and not must_reject
        st[('compose','ok','iface-good' if good else 'IFACE-BAD')]+=1
        if not good: ex.setdefault('compose-iface',[]).append((r1,r2,[v.name for v in c.inputvars],[v.name for v in c.outputvars],exp_in,exp_out,must_reject))
    else:
        st[('compose',out,'must' if must_reject else 'optional')]+=1
    # quotient c1 / c2
    q_out_bad = (S(o1)-S(o2))&S(i2)
    try: qq=c1.quotient(c2); out='ok'
    except IncompatibleArgsError: out='Incompat'
    except ValueError: out='ValueError'
    except Exception as e: out=type(e).__name__
    if out=='ok':
        ein=(S(i1)-S(i2))|(S(o2)-S(o1)); eout=(S(o1)-S(o2))|(S(i2)-S(i1))
        good= S(v.name for v in qq.inputvars)==ein and S(v.name for v in qq.outputvars)==eout and not q_out_bad
        st[('quot','ok','iface-good' if good else 'IFACE-BAD')]+=1
    else: st[('quot',out,'must' if q_out_bad else 'optional')]+=1
    # merge
    try: m=c1.merge(c2); out='ok'
    except IncompatibleArgsError: out='Incompat'
    except Exception as e: out=type(e).__name__
    wf = not ((S(i1)|S(i2))&(S(o1)|S(o2)))
    st[('merge',out,'wf' if wf else 'illformed')]+=1
for k in sorted(st,key=str): print(k,st[k])
for k,v in ex.items(): print(k); [print('  ',x) for x in v[:6]]
