from orc import *
import collections
from pacti.terms.polyhedra.serializer import polyhedral_termlist_from_string as parse
from pacti.utils.errors import PolyhedralSyntaxException, PolyhedralSyntaxConvexException
random.seed(int(sys.argv[1])); N=int(sys.argv[2])
VS=['x','y','z','w']
def num():
    return random.choice(['2','3','0.5','1.5','4','.25','2.','1e1','(1/2)','(2*3)','(1+2)','(3-1)', '(6/4)'])
def numval(s):
    s=s.strip('()')
    return F(eval(s.replace('1e1','10').replace('2.','2').replace('.25','0.25'),{'__builtins__':{}})) if False else None
import ast
def nv(s):
    t=s.strip()
    if t.startswith('('): t=t[1:-1]
    # exact rational eval
    def ev(n):
        if isinstance(n,ast.BinOp):
            a,b=ev(n.left),ev(n.right)
            return {ast.Add:a+b,ast.Sub:a-b,ast.Mult:a*b,ast.Div:a/b if b!=0 else None}[type(n.op)]
        if isinstance(n,ast.Constant): return F(str(n.value)) if not isinstance(n.value,float) else F(repr(n.value))
    return ev(ast.parse(t,mode='eval').body)
def star(): return random.choice(['','*',' * ',' '])
def gen_terms(d,allow_abs):
    """returns (string, z3expr) for a sum"""
    n=random.randint(1,3)
    parts=[];z=z3.RealVal(0)
    for i in range(n):
        sgn=random.choice(['+','-']) if i>0 else random.choice(['','-','+'])
        s,e=gen_item(d,allow_abs)
        sp=random.choice(['',' '])
        parts.append(f"{sgn}{sp}{s}")
        z = z - e if sgn=='-' else z + e
    return (random.choice(['',' '])).join(parts) if False else " ".join(parts), z
def gen_item(d,allow_abs):
    k=random.random()
    if k<0.35 or d==0:
        v=random.choice(VS)
        if random.random()<.5: return v, zv(v)
        c=num(); return f"{c}{star()}{v}", q(float(nv(c)))*zv(v) 
    if k<0.5:
        c=num(); return c, q(float(nv(c)))
    if k<0.75 or not allow_abs:
        s,e=gen_terms(d-1,False)
        if random.random()<.5: return f"({s})", e
        c=num(); return f"{c}{star()}({s})", q(float(nv(c)))*e
    s,e=gen_terms(d-1,False)
    ab=z3.If(e>=0,e,-e)
    if random.random()<.5: return f"|{s}|", ab
    c=num(); return f"{c}{random.choice(['','*'])}|{s}|", q(float(nv(c)))*ab
st=collections.Counter(); ex={}
for it in range(N):
    if random.random()<.25:
        l,le=gen_terms(2,False); r,re_=gen_terms(2,False); op=random.choice(['=','=='])
        s=f"{l} {op} {r}"; rel=(le==re_)
    else:
        op=random.choice(['<=','>='])
        sides=[gen_terms(2,True) for _ in range(random.choice([2,2,2,3]))]
        s=f" {op} ".join(x[0] for x in sides)
        rel=z3.And([ (a[1]<=b[1]) if op=='<=' else (a[1]>=b[1]) for a,b in zip(sides,sides[1:])])
    try:
        pts=parse(s)
    except PolyhedralSyntaxConvexException: st['convex-reject']+=1; continue
    except PolyhedralSyntaxException: st['syntax-reject']+=1; ex.setdefault('syn',[]).append(s); continue
    except Exception as e:
        st[type(e).__name__]+=1; ex.setdefault(type(e).__name__,s); continue
    tl=PTL(pts)
    parsed=conj(tl)
    w=sat(parsed!=rel)
    if w: st['MISMATCH']+=1; ex.setdefault('MISMATCH',[]).append((s,str(tl)))
    else: st['ok']+=1
    p2=parse(s)
    if PTL(p2)!=tl: st['NONDET']+=1
for k in sorted(st,key=str): print(k,st[k])
for k,v in ex.items():
    print(k, v[:12] if isinstance(v,list) else v)
