from orc import *
import collections, traceback
random.seed(int(sys.argv[1]) if len(sys.argv)>1 else 0)
N=int(sys.argv[2]) if len(sys.argv)>2 else 2000
VN=['a','b','c','d','e','f']
def rterm(vs,kmax=3):
    k=random.randint(1,min(kmax,len(vs)))
    sel=random.sample(vs,k)
    return PT({Var(v):random.choice([-3,-2,-1,1,2,3]) for v in sel}, random.randint(-5,8))
stats=collections.Counter(); examples={}
for it in range(N):
    nv=random.randint(2,5); vs=VN[:nv]
    tl=PTL([rterm(vs) for _ in range(random.randint(1,3))])
    ctx=PTL([rterm(vs) for _ in range(random.randint(0,4))])
    elim=[Var(v) for v in random.sample(vs,random.randint(1,min(3,nv)))]
    tact=random.choice([[1],[2],[3],[4],[5],[1,2,3,4,5]])
    refine=random.random()<0.6
    simp=random.random()<0.5
    key=(tuple(tact),refine)
    try:
        if refine: res,st=tl.elim_vars_by_refining(ctx,elim,simplify=simp,tactics_order=tact)
        else: res,st=tl.elim_vars_by_relaxing(ctx,elim,simplify=simp,tactics_order=tact)
    except ValueError as e:
        stats[key+('ValueError',)]+=1; continue
    except Exception as e:
        stats[key+(type(e).__name__,)]+=1
        examples.setdefault(key+(type(e).__name__,),(str(tl),str(ctx),[str(e) for e in elim],simp,traceback.format_exc().splitlines()[-3:]))
        continue
    used=tuple(sorted(set(s[0] for s in st)))
    ns=names(tl,ctx,res)
    if refine:
        w=sat(box(ns),conj(ctx),conj(res),anyviol(tl))
    else:
        w=sat(box(ns),conj(ctx),conj(tl),anyviol(res))
        if set(v.name for v in res.vars)&set(e.name for e in elim):
            stats[key+('LEFTOVER',)]+=1
    if w:
        stats[key+('UNSOUND',used)]+=1
        examples.setdefault(key+('UNSOUND',used),(str(tl),str(ctx),[str(e) for e in elim],simp,str(res),st))
    else: stats[key+('ok',used)]+=1
for k in sorted(stats,key=str): print(k,stats[k])
print()
for k,v in examples.items(): print(k,v,'\n')
