from gen import *
import collections, itertools
from pacti.contracts import PolyhedralIoContractCompound as PCC
from pacti.contracts.polyhedral_iocontract import NestedPolyhedra
random.seed(int(sys.argv[1])); N=int(sys.argv[2])
st=collections.Counter(); ex={}
def boxtl(vs,lo,hi):
    t=[]
    for v,l,h in zip(vs,lo,hi): t+= [PT({Var(v):1},h),PT({Var(v):-1},-l)]
    return PTL(t)
def U(n): return z3.Or([conj(tl) for tl in n.nested_termlist]) if n.nested_termlist else z3.BoolVal(False)
for it in range(N):
    vs=['x','y'][:random.randint(1,2)]
    def alts(k):
        out=[]
        for _ in range(k):
            lo=[random.randint(-4,3) for _ in vs]; hi=[l+random.randint(-1,3) for l in lo]
            out.append(boxtl(vs,lo,hi))
        return out
    a1=alts(random.randint(1,3))
    share=any(sat(conj(p),conj(qq)) is not None for p,qq in itertools.combinations(a1,2))
    try: n=NestedPolyhedra(a1,True); out='ok'
    except ValueError: out='ValueError'
    except Exception as e: out=type(e).__name__
    st[('disjoint-ctor',share,out)]+=1
    # intersect / <=
    A=NestedPolyhedra(alts(random.randint(1,3)),False); B=NestedPolyhedra(alts(random.randint(1,3)),False)
    try: I=A.intersect(B,False)
    except Exception as e: st['intersect-'+type(e).__name__]+=1; continue
    w=sat(U(I)!=z3.And(U(A),U(B)))
    emptykept=any(sat(conj(tl)) is None for tl in I.nested_termlist)
    st[('intersect','ok' if not w else 'BAD','emptykept' if emptykept else '')]+=1
    le=A<=B
    cont=sat(U(A),z3.Not(U(B))) is None
    st[('le',le,'contained' if cont else 'not')]+=1
    # membership
    pt={Var(v):float(random.randint(-8,8))/2 for v in vs}
    truth=any(all(sum(F(c)*F(pt[k]) for k,c in t.variables.items())<=F(t.constant) for t in tl.terms) for tl in A.nested_termlist)
    st[('member',truth==A.contains_behavior(pt))]+=1
for k in sorted(st,key=str): print(k,st[k])
