from gen import *
import collections, copy as cp
import pacti.terms.polyhedra.polyhedra as P, pacti.contracts.polyhedral_iocontract as PIC
random.seed(int(sys.argv[1])); N=int(sys.argv[2])
def dig(o):
    if isinstance(o,PC): return ('C',tuple(v.name for v in o.inputvars),tuple(v.name for v in o.outputvars),dig(o.a),dig(o.g))
    if isinstance(o,PTL): return ('L',tuple(dig(t) for t in o.terms))
    if isinstance(o,PT): return ('T',tuple((k.name,v.hex()) for k,v in o.variables.items()),o.constant.hex())
    if isinstance(o,(list,tuple)): return tuple(dig(x) for x in o)
    if isinstance(o,Var): return o.name
    if isinstance(o,dict): return tuple((dig(k),dig(v)) for k,v in o.items())
    return o
st=collections.Counter()
pool=[]
while len(pool)<12:
    c=rcontract(['i1','i2'][:random.randint(1,2)],['m1','o1'][:random.randint(1,2)],bounded=True)
    if c: pool.append(c)
    c=rcontract(['m1'],['p1'],bounded=True)
    if c: pool.append(c)
glob0=(list(P.TACTICS_ORDER),list(PIC.TACTICS_ORDER))
for it in range(N):
    a,b=random.sample(pool,2)
    if not (a.inputvars+a.outputvars): continue
    op=random.choice(['compose','quotient','merge','refines','rename','copy','simplify','elimr','elimx','optimize','dict','strings'])
    keep=[]; to=random.choice([None,[1,2,3],[3,2,1]])
    before=[dig(x) for x in pool]; bk=dig(keep); bt=dig(to)
    try:
        if op=='compose': r=a.compose_tactics(b,keep,True,to)[0]
        elif op=='quotient': r=a.quotient_tactics(b,None,True,to)[0]
        elif op=='merge': r=a.merge(b)
        elif op=='refines': r=a.a.refines(b.a)
        elif op=='rename': r=a.rename_variables([((a.inputvars+a.outputvars)[0].name,'zz')])
        elif op=='copy': r=a.copy()
        elif op=='simplify': r=a.g.simplify(a.a)
        elif op=='elimr': r=a.g.elim_vars_by_refining(b.g|b.a,list(a.outputvars),True,to)[0]
        elif op=='elimx': r=a.g.elim_vars_by_relaxing(b.g,list(a.outputvars),False,to)[0]
        elif op=='optimize': r=a.optimize((a.outputvars+a.inputvars)[0].name)
        elif op=='dict': r=PC.from_dict(a.to_machine_dict())
        elif op=='strings': r=PC.from_strings(**a.to_dict())
        out='ok'
    except (ValueError,AssertionError) as e: out="err:"+type(e).__name__; r=None
    after=[dig(x) for x in pool]
    if before!=after or dig(keep)!=bk or dig(to)!=bt: st[(op,out,'MUTATED')]+=1
    else: st[(op,out,'pure')]+=1
    if isinstance(r,PC) and random.random()<.3: pool[random.randrange(len(pool))]=r
    assert (list(P.TACTICS_ORDER),list(PIC.TACTICS_ORDER))==glob0
for k in sorted(st,key=str): print(k,st[k])
