from orc import *
import numpy as np
from scipy.optimize import linprog
random.seed(1)
VN=['a','b','c','d','e']
def rterm(vs,kmax=3):
    k=random.randint(1,min(kmax,len(vs)))
    sel=random.sample(vs,k)
    return PT({Var(v):random.choice([-3,-2,-1,1,2,3]) for v in sel}, random.randint(-5,8))
found=0
for it in range(3000):
    nv=random.randint(1,4); vs=VN[:nv]
    L=PTL([rterm(vs) for _ in range(random.randint(1,5))])
    if sat(conj(L)) is None: continue
    if not L.refines(L):
        found+=1
        print([ (dict((k.name,v) for k,v in t.variables.items()),t.constant) for t in L.terms], L.refines(L))
        v,A,B,C,D=PTL.termlist_to_polytope(L,L)
        for i in range(len(D)):
            cons=C[[i],:]
            res=linprog(c=-cons,A_ub=np.concatenate((A,cons),axis=0),b_ub=np.concatenate((B,[D[i]+1])),bounds=(None,None))
            print('  ',i,res.status,repr(-res.fun),D[i], -res.fun<=D[i])
        if found>=4: break
