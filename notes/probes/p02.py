from gen import *
import collections, traceback
random.seed(int(sys.argv[1])); N=int(sys.argv[2])
st=collections.Counter(); ex={}
for it in range(N):
    mode=random.choice(['hidden','rand'])
    if mode=='hidden':
        # C1: i1 -> m1 ; hidden partner: m1 -> o1 ; dividend = compose
        c1=rcontract(['i1'],['m1'],bounded=True)
        p=rcontract(['m1'],['o1'],bounded=random.random()<.5)
        if c1 is None or p is None: continue
        try: C=c1.compose(p)
        except ValueError: st['hidden-compose-fail']+=1; continue
    else:
        C=rcontract(['i1','i2'][:random.randint(1,2)],['o1','o2'][:random.randint(1,2)],bounded=random.random()<.5)
        c1=rcontract(['i1','x1'][:random.randint(1,2)],['m1','o2'][:random.randint(1,2)],bounded=random.random()<.5)
        if C is None or c1 is None: continue
    tact=random.choice([[1],[2],[3],[4],[5],None,None,[5,4,3,2,1]])
    simp=random.random()<.6
    cand=[v for v in C.inputvars+c1.outputvars]
    add=random.sample(cand,random.randint(0,min(2,len(cand)))) if random.random()<.3 else []
    try:
        Q,stt=C.quotient_tactics(c1,add,simp,tact)
    except IncompatibleArgsError: st[(mode,'Incompat')]+=1; continue
    except ValueError: st[(mode,'ValueError')]+=1; continue
    except Exception as e:
        st[(mode,type(e).__name__)]+=1; ex.setdefault(type(e).__name__,(str(C),str(c1),add,tact,simp,traceback.format_exc().splitlines()[-3:])); continue
    used=tuple(sorted(set(s[0] for ss in stt for s in ss)))
    ns=cnames(C,c1,Q)
    concl=z3.Or(anyviol(c1.a),anyviol(Q.a),anyviol(C.g))
    w=sat(box(ns),conj(C.a),honours(c1),honours(Q),concl)
    if w=='unknown': st[(mode,'unknown')]+=1
    elif w:
        st[(mode,str(tact),'UNSOUND',used)]+=1; ex.setdefault(('UNSOUND',used),(str(C),str(c1),add,tact,simp,str(Q),stt,w))
    else: st[(mode,'ok',used)]+=1
for k in sorted(st,key=str): print(k,st[k])
for k,v in ex.items(): print(k); [print('   ',x) for x in v]
