from gen import *
import collections, itertools, warnings
warnings.filterwarnings('ignore')
import matplotlib; matplotlib.use('Agg')
from pacti.utils.plots import constraints_to_vertices
random.seed(int(sys.argv[1])); N=int(sys.argv[2])
st=collections.Counter(); ex={}
def exact_vertices(rows):
    # rows: list of (a,b,c): a x + b y <= c, Fractions. enumerate pairwise intersections
    pts=set()
    for (a1,b1,c1),(a2,b2,c2) in itertools.combinations(rows,2):
        det=a1*b2-a2*b1
        if det==0: continue
        x=(c1*b2-c2*b1)/det; y=(a1*c2-a2*c1)/det
        if all(a*x+b*y<=c for a,b,c in rows): pts.add((x,y))
    return pts
for it in range(N):
    nv=random.randint(2,4); vs=['x','y','u','v'][:nv]
    tl=PTL([rterm(vs,3) for _ in range(random.randint(1,4))])
    vals={Var(v):random.randint(-3,3) for v in vs[2:]}
    xl=sorted(random.sample(range(-5,6),2)); yl=sorted(random.sample(range(-5,6),2))
    X,Y=Var('x'),Var('y')
    if random.random()<.5: X,Y=Y,X   # swap roles
    rows=[]
    for t in tl.terms:
        a=F(t.get_coefficient(X)); b=F(t.get_coefficient(Y)); c=F(t.constant)-sum(F(t.get_coefficient(k))*v for k,v in vals.items())
        rows.append((a,b,c))
    rows+= [(F(1),F(0),F(xl[1])),(F(-1),F(0),F(-xl[0])),(F(0),F(1),F(yl[1])),(F(0),F(-1),F(-yl[0]))]
    infeas_const=any(a==0 and b==0 and c<0 for a,b,c in rows)
    rows2=[r for r in rows if not (r[0]==0 and r[1]==0)]
    ev=exact_vertices(rows2) if not infeas_const else set()
    try: xs,ys=constraints_to_vertices(tl,X,Y,vals,tuple(xl),tuple(yl))
    except ValueError as e:
        st[('ValueError','empty' if not ev else 'NONEMPTY:%d'%len(ev))]+=1
        if ev: ex.setdefault('VE-nonempty',[]).append((str(tl),X.name,{k.name:v for k,v in vals.items()},xl,yl,sorted(map(lambda p:(float(p[0]),float(p[1])),ev)),str(e)[:80]))
        continue
    except Exception as e:
        st[(type(e).__name__,len(ev))]+=1; ex.setdefault(type(e).__name__,[]).append((str(tl),X.name,{k.name:v for k,v in vals.items()},xl,yl,len(ev),str(e)[:100])); continue
    got=list(zip(xs,ys))
    # compare sets with tolerance
    def close(p,qq): return abs(p[0]-float(qq[0]))<1e-6 and abs(p[1]-float(qq[1]))<1e-6
    missing=[e for e in ev if not any(close(g,e) for g in got)]
    extra=[g for g in got if not any(close(g,e) for e in ev)]
    dup=len(got)-len(ev)
    key=('n=%d'%len(ev), 'missing' if missing else '', 'extra' if extra else '', 'dups' if (dup>0 and not extra) else '')
    st[key]+=1
    if missing or extra: ex.setdefault(key,[]).append((str(tl),X.name,{k.name:v for k,v in vals.items()},xl,yl,got,sorted((float(a),float(b)) for a,b in ev)))
for k in sorted(st,key=str): print(k,st[k])
for k,v in ex.items(): print(k); [print('  ',x) for x in v[:3]]
