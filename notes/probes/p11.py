from gen import *
import collections
random.seed(int(sys.argv[1])); N=int(sys.argv[2])
st=collections.Counter(); ex={}
VN=['a','b','c','d']
for it in range(N):
    nv=random.randint(1,4); vs=VN[:nv]
    tl=PTL([rterm(vs) for _ in range(random.randint(1,5))])
    # emptiness
    feas=sat(conj(tl)) is not None
    # thin margins
    try: e=tl.is_empty()
    except Exception as x: st['is_empty-'+type(x).__name__]+=1; continue
    st[('empty',feas,e)]+=1
    if feas==e: ex.setdefault('empty',[]).append(str(tl))
    # behaviours on boundary
    t=random.choice(tl.terms)
    # pick dyadic values for all but one var, solve last for boundary
    vals={v:F(random.randint(-16,16),random.choice([1,2,4,8])) for v in vs}
    tv=list(t.variables.keys()); last=tv[-1]
    rest=sum(F(t.variables[k])*vals[k.name] for k in tv[:-1])
    bv=(F(t.constant)-rest)/F(t.variables[last])
    for delta,lab in [(0,'on'),(F(1,64),'d+'),(F(-1,64),'d-')]:
        vals2=dict(vals); vals2[last.name]=bv+delta
        fl={Var(k):float(v) for k,v in vals2.items()}
        if any(F(x)!=vals2[k.name] for k,x in fl.items()): st['nonexact']+=1; continue
        truth=all(sum(F(c)*vals2[k.name] for k,c in u.variables.items())<=F(u.constant) for u in tl.terms)
        try: got=tl.contains_behavior(fl)
        except Exception as x: got=type(x).__name__
        st[('beh',lab,truth==got)]+=1
        if truth!=got: ex.setdefault('beh',[]).append((str(tl),vals2,truth,got))
    # missing var
    if len(tl.vars)>=1:
        fl={v:0.0 for v in tl.vars[1:]}
        try: tl.contains_behavior(fl); st['missing-noraise']+=1
        except ValueError: st['missing-ValueError']+=1
for k in sorted(st,key=str): print(k,st[k])
for k,v in ex.items(): print(k); [print('  ',x) for x in v[:4]]
