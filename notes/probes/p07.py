from gen import *
import collections
random.seed(int(sys.argv[1])); N=int(sys.argv[2])
st=collections.Counter(); ex={}
VN=['a','b','c','d','e']
for it in range(N):
    nv=random.randint(1,4); vs=VN[:nv]
    tl=[rterm(vs) for _ in range(random.randint(1,5))]
    ctx=[rterm(vs) for _ in range(random.randint(0,3))]
    # planted redundancy
    r=random.random()
    if r<.2 and tl: tl.append(tl[0].copy())
    elif r<.4 and tl: tl.append(tl[0].multiply(random.choice([2,3,0.5])))
    elif r<.6 and len(tl)>=2:
        s=tl[0].multiply(random.randint(1,2))+tl[1].multiply(random.randint(1,2)); s.constant+=random.choice([0,0,1]); 
        if s.variables: tl.append(s)
    random.shuffle(tl)
    T=PTL(tl); C=PTL(ctx)
    feas = sat(conj(T),conj(C)) is not None
    try: S=T.simplify(C) if (ctx or random.random()<.5) else T.simplify()
    except ValueError:
        st[('ValueError','feasible' if feas else 'infeasible')]+=1
        if feas: ex.setdefault('VE-feasible',[]).append((str(T),str(C)))
        continue
    except Exception as e: st[type(e).__name__]+=1; ex.setdefault(type(e).__name__,[]).append((str(T),str(C))); continue
    if not feas: st['returned-on-infeasible']+=1; continue
    ns=names(T,C,S)
    # selection?
    sel=all(any(t==u for u in T.terms) for t in S.terms)
    if not sel: st['NOT-SELECTION']+=1; ex.setdefault('nosel',[]).append((str(T),str(C),str(S)))
    # equivalence in context (tolerance)
    w=sat(box(ns),conj(C),conj(S),anyviol(T))
    if w: st['LOST-MEANING']+=1; ex.setdefault('lost',[]).append((str(T),str(C),str(S)))
    # no redundancy (with margin)
    red=False
    for i,t in enumerate(S.terms):
        rest=PTL(S.terms[:i]+S.terms[i+1:])
        # t droppable if implied with margin: max t over rest∧C <= c - margin
        w2=sat(conj(C),conj(rest), lhs(t) > q(t.constant) - q(1e-4*(1+abs(t.constant))))
        if w2 is None: red=True; ex.setdefault('redundant',[]).append((str(T),str(C),str(S),str(t)))
    st['REDUNDANT-LEFT' if red else 'ok']+=1
for k in sorted(st,key=str): print(k,st[k])
for k,v in ex.items(): print(k); [print('  ',x) for x in v[:4]]
