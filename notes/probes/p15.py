from orc import *
c1=PC.from_strings(['i1 <= 5'],['o1 - i1 <= 2','s <= 3 '],['i1','s'],['o1'])
c2=PC.from_strings(['j1 <= 5'],['p1 - j1 <= 2','s <= 3'],['j1','s'],['p1'])
print(c1.compose(c2))
print(c1.merge(c2))
c3=PC.from_strings(['j1 <= 5'],['p1 - j1 <= 2','2s <= 6'],['j1','s'],['p1'])
print(c1.compose(c3))
# connected
c4=PC.from_strings(['o1 <= 10'],['p1 - o1 <= 2','s <= 3'],['o1','s'],['p1'])
print(c1.compose(c4))
