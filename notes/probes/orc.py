import sys
import os; SRC=os.environ.get('SRC','/repo/src'); sys.path.insert(0,SRC)
from fractions import Fraction as F
import z3, random
import pacti
assert pacti.__file__.startswith(SRC), pacti.__file__
from pacti.iocontract import Var
from pacti.terms.polyhedra import PolyhedralTerm as PT, PolyhedralTermList as PTL
from pacti.contracts import PolyhedralIoContract as PC

def q(x):
    fr=F(float(x)); return z3.Q(fr.numerator, fr.denominator)
_vars={}
def zv(v):
    n=v.name if hasattr(v,'name') else v
    if n not in _vars: _vars[n]=z3.Real(n)
    return _vars[n]
def lhs(t):
    return z3.Sum([q(c)*zv(v) for v,c in t.variables.items()]) if t.variables else z3.RealVal(0)
def holds(t, slack=0):
    return lhs(t) <= q(t.constant)+q(slack)
def conj(tl, slack=0):
    return z3.And([holds(t,slack) for t in tl.terms]) if tl.terms else z3.BoolVal(True)
def viol(t, tol=1e-4):
    return lhs(t) > q(t.constant) + q(tol*(1+abs(t.constant)))
def anyviol(tl,tol=1e-4):
    return z3.Or([viol(t,tol) for t in tl.terms]) if tl.terms else z3.BoolVal(False)
def box(names,B=1000):
    return z3.And([z3.And(zv(n)>=-B, zv(n)<=B) for n in names])
def sat(*fs):
    s=z3.Solver(); s.set('timeout',20000)
    for f in fs: s.add(f)
    r=s.check()
    if r==z3.sat:
        m=s.model(); return {str(d):m[d] for d in m.decls()}
    if r==z3.unknown: return 'unknown'
    return None
def names(*tls):
    out=[]
    for tl in tls:
        for v in tl.vars:
            if v.name not in out: out.append(v.name)
    return out
