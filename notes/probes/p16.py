from gen import *
import collections, itertools
random.seed(int(sys.argv[1])); N=int(sys.argv[2])
st=collections.Counter(); ex={}
def subst(f,s,t): return z3.substitute(f,(zv(s),zv(t)))
def equiv_tol(tlA, fB, ns):
    """tlA: PTL (result), fB: formula maker giving (exact formula, list of (lhs,const) terms) -- simplified: check both dirs exact-ish"""
for it in range(N):
    ins=['i1','i2','i3'][:random.randint(1,3)]; outs=['o1','o2'][:random.randint(1,2)]
    c=rcontract(ins,outs,bounded=random.random()<.4)
    if c is None: continue
    allv=ins+outs+['fresh','absent']
    s=random.choice(ins+outs+['absent']); t=random.choice(ins+outs+['fresh'])
    sv,tv=Var(s),Var(t)
    clash = (s in ins and t in outs) or (s in outs and t in ins)
    try: r=c.rename_variable(sv,tv); out='ok'
    except IncompatibleArgsError: out='Incompat'
    except Exception as e: out=type(e).__name__; ex.setdefault(out,[]).append((str(c),s,t))
    kind=('absent' if s=='absent' else 'same' if s==t else 'clash' if clash else 'fresh' if t=='fresh' else 'merge')
    if out!='ok':
        st[(kind,out)]+=1; continue
    if clash: st[(kind,'RETURNED')]+=1; continue
    ns=cnames(c,r)+[t]
    if s=='absent' or s==t:
        same = r.inputvars==c.inputvars and r.outputvars==c.outputvars and sat(conj(r.a)!=conj(c.a)) is None and sat(z3.And(conj(r.a),conj(r.g))!=z3.And(conj(c.a),conj(c.g))) is None
        st[(kind,'same' if same else 'CHANGED')]+=1; continue
    A=subst(conj(c.a),s,t); AG=subst(z3.And(conj(c.a),conj(c.g)),s,t)
    w1=sat(conj(r.a)!=A); w2=sat(z3.And(conj(r.a),conj(r.g))!=AG)
    exp_in=[t if v==s else v for v in ins]; exp_out=[t if v==s else v for v in outs]
    exp_in=list(dict.fromkeys(exp_in)); exp_out=list(dict.fromkeys(exp_out))
    iface= set(v.name for v in r.inputvars)==set(exp_in) and set(v.name for v in r.outputvars)==set(exp_out)
    st[(kind,'sem-ok' if not (w1 or w2) else 'SEM-BAD','iface-ok' if iface else 'IFACE-BAD')]+=1
    if w1 or w2 or not iface: ex.setdefault((kind,'bad'),[]).append((str(c),s,t,str(r)))
    if kind=='fresh':
        back=r.rename_variable(tv,sv)
        ok= set(v.name for v in back.inputvars)==set(ins) and set(v.name for v in back.outputvars)==set(outs) and sat(z3.And(conj(back.a),conj(back.g))!=z3.And(conj(c.a),conj(c.g))) is None
        st[('roundtrip',ok)]+=1
for k in sorted(st,key=str): print(k,st[k])
for k,v in ex.items(): print(k); [print('  ',x) for x in v[:3]]
