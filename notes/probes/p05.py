import sys; sys.path.insert(0,'/repo/src')
import itertools, z3
from pacti.iocontract import IoContract, TermList, Term, Var
from pacti.utils.errors import IncompatibleArgsError
class Atom(Term):
    def __init__(self,name,vs): self.name=name; self._vars=list(vs)
    @property
    def vars(self): return list(self._vars)
    def contains_var(self,v): return v in self._vars
    def __eq__(self,o): return isinstance(o,Atom) and self.name==o.name
    def __hash__(self): return hash(self.name)
    def __str__(self): return f"{self.name}({','.join(v.name for v in self._vars)})"
    __repr__=__str__
    def copy(self): return Atom(self.name,self._vars)
    def rename_variable(self,s,t): return Atom(self.name,[t if v==s else v for v in self._vars])
class World:
    def __init__(self,script): self.script=list(script); self.axioms=[]; self.n=0; self.log=[]
    def fresh(self,vs): self.n+=1; return Atom(f"x{self.n}",vs)
    def next(self,kind):
        o=self.script.pop(0) if self.script else 'ideal'
        self.log.append((kind,o)); return o
W=None
def B(a): return z3.Bool(a.name)
def conj(tl): return z3.And([B(t) for t in tl.terms]) if tl.terms else z3.BoolVal(True)
class SymTL(TermList):
    def __hash__(self): return hash(tuple(self.terms))
    def contains_behavior(self,b): raise NotImplementedError
    def is_empty(self): return False
    def _elim(self,context,vars_to_elim,refine):
        o=W.next('refine' if refine else 'relax')
        if o=='verr': raise ValueError('primitive failed')
        keep=[t for t in self.terms if not set(t.vars)&set(vars_to_elim)]
        hit=[t for t in self.terms if set(t.vars)&set(vars_to_elim)]
        out=list(keep)
        if o=='leftover' and refine:
            out=list(self.terms)
        else:
            for t in hit:
                sup=[v for v in dict.fromkeys(t.vars+context.vars) if v not in vars_to_elim]
                if o=='drop' and not refine: continue
                out.append(W.fresh(sup))
        res=SymTL(out)
        if refine: W.axioms.append(z3.Implies(z3.And(conj(context),conj(res)),conj(self)))
        else: W.axioms.append(z3.Implies(z3.And(conj(context),conj(self)),conj(res)))
        return res,[]
    def elim_vars_by_refining(self,context,vars_to_elim,simplify=True,tactics_order=None): return self._elim(context,vars_to_elim,True)
    def elim_vars_by_relaxing(self,context,vars_to_elim,simplify=True,tactics_order=None): return self._elim(context,vars_to_elim,False)
    def simplify(self,context=None):
        o=W.next('simplify')
        if o=='verr': raise ValueError('infeasible')
        return self.copy()
    def refines(self,other):
        o=W.next('refines')
        r = (o!='false')
        if r: W.axioms.append(z3.Implies(conj(self),conj(other)))
        return r
def valid(f):
    s=z3.Solver(); s.add(z3.And(W.axioms) if W.axioms else True); s.add(z3.Not(f)); return s.check()==z3.unsat
def mk(name,ins,outs):
    a=SymTL([Atom(f"A{name}",[Var(v) for v in ins])]); g=SymTL([Atom(f"G{name}",[Var(v) for v in ins+outs])])
    return IoContract(a,g,[Var(v) for v in ins],[Var(v) for v in outs])
import collections
st=collections.Counter()
OUT=['ideal','leftover','drop','verr','false']
for script in itertools.product(OUT,repeat=5):
    for (t1,t2) in [((['i'],['m']),(['m'],['o'])), ((['m'],['o']),(['i'],['m'])), ((['i'],['o']),(['j'],['p']))]:
        W=World(['ideal','ideal']+list(script))  # first two simplify calls in constructors
        c1=mk('1',*t1); c2=mk('2',*t2)
        try: c=c1.compose(c2)
        except IncompatibleArgsError: st['incompat']+=1; continue
        except ValueError: st['valueerror']+=1; continue
        ob=z3.Implies(z3.And(conj(c.a),z3.Implies(conj(c1.a),conj(c1.g)),z3.Implies(conj(c2.a),conj(c2.g))), z3.And(conj(c1.a),conj(c2.a),conj(c.g)))
        st['sound' if valid(ob) else 'UNSOUND']+=1
        if not valid(ob): print(script,t1,t2,c,W.log)
print(st)
