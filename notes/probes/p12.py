from gen import *
import collections
random.seed(int(sys.argv[1])); N=int(sys.argv[2])
st=collections.Counter(); ex={}
for it in range(N):
    ins=['i1','i2'][:random.randint(1,2)]; outs=['o1','o2','o3'][:random.randint(1,3)]
    c=rcontract(ins,outs,bounded=random.random()<.4)
    if c is None: continue
    vs=ins+outs
    sel=random.sample(vs,random.randint(1,min(3,len(vs))))
    coef={v:random.choice([-3,-2,-1,1,2,3]) for v in sel}
    expr=" ".join((f"+ {k}*{v}" if k>0 else f"- {-k}*{v}") for v,k in coef.items()); expr=expr[2:] if expr.startswith("+ ") else expr
    mx=random.random()<.5
    allc=c.a|c.g
    feas=sat(conj(allc)) is not None
    o=z3.Optimize(); o.add(conj(allc)); obj=z3.Sum([q(k)*zv(v) for v,k in coef.items()])
    h=o.maximize(obj) if mx else o.minimize(obj)
    truth=None
    if feas:
        o.check(); val=o.upper(h) if mx else o.lower(h)
        truth='unb' if 'oo' in str(val) else val
    else: truth='infeas'
    try: got=c.optimize(expr,maximize=mx)
    except ValueError: got='ValueError'
    except Exception as e: got=type(e).__name__
    if isinstance(truth,str) and truth=='unb': ok = got is None
    elif isinstance(truth,str) and truth=='infeas': ok = got=='ValueError'
    else:
        tv=float(F(str(truth))) if 'oo' not in str(truth) else None
        if tv is None: print('WEIRD',truth); continue
        ok = isinstance(got,float) and abs(got-tv)<=1e-6*(1+abs(tv))
    cls=truth if isinstance(truth,str) else 'finite'
    st[(cls,'ok' if ok else 'BAD:'+str(got if not isinstance(got,float) else 'val'))]+=1
    if not ok: ex.setdefault((cls,str(got)),(str(c),expr,mx,str(truth),got))
for k in sorted(st,key=str): print(k,st[k])
for k,v in ex.items(): print(k,v)
