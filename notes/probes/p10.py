from gen import *
import collections, json, tempfile, os
from pacti.utils.fileio import read_contracts_from_file, write_contracts_to_file
random.seed(int(sys.argv[1])); N=int(sys.argv[2])
st=collections.Counter(); ex={}
def rnum(kind):
    if kind=='int': return float(random.choice([1,2,3,5,7,10,12,100,250,1000,99999,123456]))*random.choice([1,-1])
    if kind=='dec': 
        m=random.randint(1000,9999); e=random.randint(-7,2); return float(F(m)*F(10)**e)*random.choice([1,-1])
    return random.choice([1,-1])*10**random.uniform(-4,6)
def round4(x): return float(f"{x:.4g}")
for it in range(N):
    kind=random.choice(['int','dec','float'])
    ins=['i1','i2']; outs=['o1','o2']
    def mk(vs):
        sel=random.sample(vs,random.randint(1,len(vs)))
        return PT({Var(v):rnum(kind) for v in sel}, rnum(kind) if random.random()<.9 else 0.0)
    a=[mk(ins) for _ in range(random.randint(0,2))]
    g=[mk(ins+outs) for _ in range(random.randint(1,3))]
    # opposite pairs
    if random.random()<.6:
        t=random.choice(g); m=random.choice(['eq','abs','unrel','zero'])
        c={'eq':-t.constant,'abs':t.constant,'unrel':rnum(kind),'zero':0.0}[m]
        t2=PT({k:-v for k,v in t.variables.items()},c)
        if m=='zero': t.constant=0.0
        g.insert(random.randint(0,len(g)),t2)
    try: c=PC(PTL(a),PTL(g),[Var(v) for v in ins],[Var(v) for v in outs],simplify=False)
    except ValueError: continue
    # machine dict
    c2=PC.from_dict(c.to_machine_dict(),simplify=False)
    if not (c2==c and c2.outputvars==c.outputvars): st['machine-dict-MISMATCH']+=1
    # string
    d=c.to_dict()
    try: c3=PC.from_strings(**d,simplify=False)
    except Exception as e:
        st['str-parse-'+type(e).__name__]+=1; ex.setdefault('parse',[]).append((d,str(e)[:200])); continue
    # expected meaning: rounded
    def rounded(tl): return PTL([PT({k:round4(v) for k,v in t.variables.items()},round4(t.constant)) for t in tl.terms])
    for (orig,back,nm) in [(c.a,c3.a,'a'),(c.g,c3.g,'g')]:
        R=rounded(orig)
        w=sat(conj(R)!=conj(back))
        if w:
            # tolerance: approx?
            st[(kind,'str-MISMATCH')]+=1; ex.setdefault('mis',[]).append((str(orig),orig.to_str_list(),str(back)))
        else: st[(kind,'ok')]+=1
for k in sorted(st,key=str): print(k,st[k])
for k,v in ex.items(): print(k); [print('  ',x) for x in v[:6]]
