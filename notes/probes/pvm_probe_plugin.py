import sys, collections, atexit, json
import orc
from orc import *
import pacti.terms.polyhedra.polyhedra as P
from pacti.iocontract import IoContract
ST=collections.Counter(); EX={}
_depth=[0]
def wrap(cls,name,post):
    orig=getattr(cls,name)
    def w(self,*a,**k):
        try: r=orig(self,*a,**k)
        except Exception as e:
            ST[(name,'raise',type(e).__name__)]+=1; raise
        try: post(self,a,k,r)
        except Exception as e:
            ST[(name,'MONITOR-ERROR',type(e).__name__,str(e)[:80])]+=1
        return r
    setattr(cls,name,w)
def rec(name,ok,info):
    ST[(name,'ok' if ok else 'VIOL')]+=1
    if not ok: EX.setdefault(name,[]).append(info)
def post_simplify(self,a,k,r):
    ctx=a[0] if a else k.get('context')
    ctx=ctx if ctx is not None else PTL([])
    ns=names(self,ctx,r)
    w=sat(box(ns),conj(ctx),conj(r),anyviol(self))
    rec('simplify',not w,(str(self),str(ctx),str(r),str(w)))
def post_elim(refine):
    def p(self,a,k,r):
        ctx=a[0]; res=r[0]
        ns=names(self,ctx,res)
        w=sat(box(ns),conj(ctx),conj(res),anyviol(self)) if refine else sat(box(ns),conj(ctx),conj(self),anyviol(res))
        rec('refine' if refine else 'relax',not w,(str(self),str(ctx),[str(v) for v in a[1]],str(res),r[1],str(w)))
    return p
def post_refines(self,a,k,r):
    other=a[0]
    exact=sat(conj(self),z3.Not(conj(other))) is None
    ns=names(self,other)
    clearF=bool(sat(box(ns),conj(self),anyviol(other)))
    cls='T' if exact else ('F' if clearF else 'band')
    ok = (cls=='band') or (cls=='T')==bool(r)
    rec('refines:'+cls,ok,(str(self),str(other),r))
def honours(c,slack=1e-7): return z3.Implies(conj(c.a,slack),conj(c.g))
def cn(*cs):
    out=[]
    for c in cs:
        for v in c.inputvars+c.outputvars:
            if v.name not in out: out.append(v.name)
    return out
def post_compose(self,a,k,r):
    other=a[0]; c=r[0]
    ns=cn(self,other,c)
    w=sat(box(ns),conj(c.a),honours(self),honours(other),z3.Or(anyviol(self.a),anyviol(other.a),anyviol(c.g)))
    rec('compose',not w,(str(self),str(other),str(c),str(w)))
def post_quot(self,a,k,r):
    other=a[0]; Q=r[0]
    ns=cn(self,other,Q)
    w=sat(box(ns),conj(self.a),honours(other),honours(Q),z3.Or(anyviol(other.a),anyviol(Q.a),anyviol(self.g)))
    rec('quotient',not w,(str(self),str(other),str(Q),str(w)))
wrap(P.PolyhedralTermList,'simplify',post_simplify)
wrap(P.PolyhedralTermList,'elim_vars_by_refining',post_elim(True))
wrap(P.PolyhedralTermList,'elim_vars_by_relaxing',post_elim(False))
wrap(P.PolyhedralTermList,'refines',post_refines)
wrap(IoContract,'compose_tactics',post_compose)
wrap(IoContract,'quotient_tactics',post_quot)
def dump():
    with open('/tmp/probe/plugin_out.txt','w') as f:
        for k in sorted(ST,key=str): print(k,ST[k],file=f)
        for k,v in EX.items():
            print('==',k,len(v),file=f)
            for x in v[:5]: print('   ',x,file=f)
atexit.register(dump)
