from gen import *
import collections, traceback
random.seed(int(sys.argv[1])); N=int(sys.argv[2])
st=collections.Counter(); ex={}
for it in range(N):
    kind,i1,o1,i2,o2=wiring()
    c1=rcontract(i1,o1,bounded=random.random()<.5); c2=rcontract(i2,o2,bounded=random.random()<.3)
    if c1 is None or c2 is None: st['gen-infeasible']+=1; continue
    outs=o1+o2
    keep=random.sample(outs,random.randint(0,min(2,len(outs)))) if random.random()<.4 else []
    tact=random.choice([[1],[2],[3],[4],[5],None,None,[5,4,3,2,1],[2,1]])
    simp=random.random()<.6
    try:
        c,stt=c1.compose_tactics(c2,keep,simp,tact)
    except IncompatibleArgsError: st[(kind,'Incompat')]+=1; continue
    except ValueError: st[(kind,'ValueError')]+=1; continue
    except Exception as e:
        st[(kind,type(e).__name__)]+=1; ex.setdefault(type(e).__name__,(str(c1),str(c2),keep,tact,simp,traceback.format_exc().splitlines()[-3:])); continue
    used=tuple(sorted(set(s[0] for ss in stt for s in ss)))
    ns=cnames(c1,c2,c)
    concl=z3.Or(anyviol(c1.a),anyviol(c2.a),anyviol(c.g))
    w=sat(box(ns),conj(c.a),honours(c1),honours(c2),concl)
    tk=str(tact)
    if w=='unknown': st[(kind,'unknown')]+=1
    elif w:
        st[(kind,tk,'UNSOUND',used)]+=1; ex.setdefault(('UNSOUND',used),(str(c1),str(c2),keep,tact,simp,str(c),stt))
    else: st[(kind,'ok')]+=1
for k in sorted(st,key=str): print(k,st[k])
for k,v in ex.items(): print(k); [print('   ',x) for x in v]
