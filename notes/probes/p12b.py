from orc import *
import numpy as np
from scipy.optimize import linprog
c=PC.from_strings(['2 i1 <= 1'],['i1 + 2 i2 + 3 o1 <= 5','-i2 - 2 o1 <= -2','-2 i1 - 2 o1 <= -4'],['i1','i2'],['o1'])
tl=c.a|c.g
obj=PTL([PT({Var('o1'):-3},0)])
_,A,b,O,_=PTL.termlist_to_polytope(tl,obj)
for pol in (1,-1):
    r=linprog(c=pol*O[0],A_ub=A,b_ub=b,bounds=(None,None)); print(pol,r.status,r.message)
    r=linprog(c=pol*O[0],A_ub=A,b_ub=b,bounds=(None,None),options={'presolve':False}); print(pol,r.status,r.message)
