from orc import *
import json, copy, tempfile, os, collections
from pacti.terms.polyhedra.serializer import validate_contract_dict
from pacti.utils.fileio import read_contracts_from_file
from pacti.utils.errors import ContractFormatError
mach={"input_vars":["i"],"output_vars":["o"],"assumptions":[{"constant":1.0,"coefficients":{"i":1.0}}],"guarantees":[{"constant":2.0,"coefficients":{"o":1.0,"i":-1.0}}]}
hum={"input_vars":["i"],"output_vars":["o"],"assumptions":["i <= 1"],"guarantees":["o - i <= 2"]}
BAD=[None,3,"str",[1],{"a":1},True,1.5]
def paths(d,pre=()):
    if isinstance(d,dict):
        for k,v in d.items():
            yield pre+(k,); yield from paths(v,pre+(k,))
    elif isinstance(d,list):
        for i,v in enumerate(d):
            yield pre+(i,); yield from paths(v,pre+(i,))
def get(d,p):
    for k in p: d=d[k]
    return d
def setp(d,p,val):
    for k in p[:-1]: d=d[k]
    d[p[-1]]=val
def delp(d,p):
    for k in p[:-1]: d=d[k]
    del d[p[-1]]
st=collections.Counter(); ex={}
for name,base,machine in [('mach',mach,True),('hum',hum,False)]:
    entry={"name":"c","type":"PolyhedralIoContract_machine" if machine else "PolyhedralIoContract","data":base}
    muts=[]
    for p in paths(entry):
        e=copy.deepcopy(entry); delp(e,p); muts.append((('del',)+p,e))
        for b in BAD:
            if type(b)==type(get(entry,p)): continue
            e=copy.deepcopy(entry); setp(e,p,b); muts.append((('set',repr(b))+p,e))
    for tag,e in muts:
        fn=tempfile.mktemp(suffix='.json'); json.dump([e],open(fn,'w'))
        try:
            cs,_=read_contracts_from_file(fn); out='ACCEPTED'
        except (ContractFormatError,) as x: out='ContractFormatError'
        except ValueError as x: out='ValueError:'+type(x).__name__
        except Exception as x: out='ESCAPE:'+type(x).__name__
        os.unlink(fn)
        st[(name,out)]+=1
        if out.startswith('ESCAPE') or out=='ACCEPTED': ex.setdefault((name,out),[]).append(tag)
for k in sorted(st,key=str): print(k,st[k])
for k,v in ex.items(): print(k,len(v)); [print('   ',x) for x in v[:40]]
