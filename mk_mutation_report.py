#!/venv/bin/python
"""Writes mutation_report.md from the raw results of `mutate.py run` and the hand triage below."""
import collections
import json
import os
import sys

HERE = os.path.dirname(os.path.abspath(__file__))
SRC = sys.argv[1] if len(sys.argv) > 1 else os.path.join(HERE, "mutation_results.jsonl")

# hand triage of the survivors, keyed by (file, line, kind, detail)
TRIAGE = {
    ("polyhedra.py", 655, "compare", "Is->IsNot"): "no property: an explicit `tactics_order` is replaced by the default (and None is passed on to `_transform`, which defaults it); every order is sound (C04), none of the 19 properties says the order is honoured",
    ("polyhedra.py", 851, "negate-if", ""): "no property: same as above, one level down",
    ("polyhedra.py", 1564, "negate-if", ""): "no property: same as above, in `_transform_term`",
    ("polyhedra.py", 913, "const", "0->1"): "MISS at the time (IndexError where None is due, only in the presolve-retry branch); C12 now treats an exception where an answer is due as a wrong outcome: re-run -> detected by C12",
    ("polyhedra.py", 909, "const", "0->1"): "MISS at the time (IndexError on every call; the suite never calls `optimize`); re-run after the C12 change -> detected by C12",
    ("plots.py", 30, "compare", "Gt->GtE"): "equivalent: the loop over an empty dict builds the same empty dict",
    ("iocontract.py", 154, "negate-if", ""): "unreachable for the properties: `PolyhedralTermList` and the scripted domain of C05 define their own constructors; at the time C05 built operands through it without noticing lost terms - C05 now builds operands directly and flags `operand-lost-its-terms`",
    ("compundiocontract.py", 212, "callee", "list_diff->list_intersection"): "equivalent up to the text of an error message",
    ("polyhedra.py", 1204, "binop", "Mult->Div"): "outside every quantifier: differs only for a matrix with rows and no columns (lists of variable-free terms; C11 quantifies over terms that mention a variable)",
    ("compundiocontract.py", 118, "callee", "list_union->list_intersection"): "no property: `NestedTermList.vars` becomes empty, which only disables the interface validation of compound contracts; C17 speaks about union semantics, C06 about `IoContract`",
    ("iocontract.py", 684, "swap-args", "list_intersection"): "equivalent: only the length of the intersection is used",
    ("polyhedra.py", 1076, "binop", "Mult->Div"): "equivalent: x * -1 == x / -1",
    ("polyhedra.py", 1380, "const", "1->0"): "no property: the number is a tactic-usage statistic",
    ("polyhedra.py", 1438, "const", "0->1"): "no property: tactic 4 ignores context rows whose coefficient is exactly 1 - fewer candidates, every accepted result is still verified by the dispatcher (C04 is about soundness, not completeness)",
    ("iocontract.py", 194, "swap-args", "list_intersection"): "equivalent: only truthiness is used",
    ("iocontract.py", 676, "swap-args", "list_union"): "equivalent up to the order of a variable list",
    ("iocontract.py", 661, "swap-args", "list_intersection"): "equivalent up to the order of a variable list (order of elimination; every order is sound)",
    ("data.py", 309, "const", "1->0"): "equivalent: an enum value",
    ("iocontract.py", 863, "swap-args", "list_intersection"): "equivalent up to the order of names in an error message",
    ("plots.py", 194, "const", "0->1"): "equivalent: `interior=False` is never passed",
    ("polyhedra.py", 1060, "const", "0->1"): "equivalent: guards an `assert`",
    ("polyhedra.py", 870, "const", "0->1"): "no property: tactic-usage statistic",
    ("data.py", 138, "binop", "Mult->Div"): "equivalent: x * -1.0 == x / -1.0",
    ("polyhedra.py", 1477, "callee", "list_intersection->list_union"): "no property: tactic 5 looks for rows over more variables and finds fewer candidates; every accepted candidate is verified by the dispatcher",
    ("iocontract.py", 370, "const", "True->False"): "no property: contracts are no longer simplified at construction by default (C07 says construction never *changes* the meaning)",
    ("data.py", 39, "const", "0->1"): "equivalent: `PolyhedralSyntaxTermList.is_positive` is dead code (the absolute-term class has its own)",
}


def main():
    recs = [json.loads(ln) for ln in open(SRC)]
    st = collections.Counter(r.get("status") for r in recs)
    out = ["# Classic mutation operators against the checks", "",
           "Produced by `mutate.py run 140 7` (140 sites sampled with seed 7 out of the candidate sites listed by",
           "`mutate.py list`), each mutant in its own scratch worktree of /repo: first the repository suite with",
           "`PYTHONPATH=<tree>/src`, then - only if the suite still passes - the quick checks of the properties anchored",
           "in the mutated function (`PACTI_VERIF_SRC=<tree>/src`).  This file is written by `mk_mutation_report.py`.", "",
           "| outcome | mutants |", "|---|---|"]
    for k in ("killed-by-tests", "detected", "inconclusive", "survived"):
        out.append("| %s | %d |" % (k, st.get(k, 0)))
    out += ["", "`inconclusive` = a check ended with exit 2 because a required reach counter stayed at zero (the mutant "
            "removed the behaviour the monitor waits for): the check did not pass, which is a detection in effect.", "",
            "## Mutants that survive the suite and are caught by a check", "",
            "| site | operator | function | caught by | mechanism |", "|---|---|---|---|---|"]
    for r in recs:
        if r.get("status") in ("detected", "inconclusive"):
            by = r.get("detected_by") or [p for p, c in r["checks"].items() if c["exit"] == 2]
            line = ""
            for p in by:
                ls = r["checks"][p]["lines"]
                if ls:
                    line = ls[0].strip().split(" : ")[0].replace("mechanism=", "")[:90]
            out.append("| %s:%d | %s %s | %s | %s | `%s` |" % (os.path.basename(r["file"]), r["line"], r["kind"],
                                                          r["detail"], r["func"], ", ".join(by), line))
    out += ["", "## Survivors (suite passes, every mapped check passes) and their triage", "",
            "| site | operator | function | checks run | triage |", "|---|---|---|---|---|"]
    missing = 0
    for r in recs:
        if r.get("status") != "survived":
            continue
        key = (os.path.basename(r["file"]), r["line"], r["kind"], r["detail"])
        t = TRIAGE.get(key)
        if t is None:
            missing += 1
            t = "NOT TRIAGED"
        out.append("| %s:%d | %s %s | %s | %s | %s |" % (key[0], r["line"], r["kind"], r["detail"], r["func"],
                                                    ", ".join(r["checks"]), t))
    out += ["", "Summary: of the %d survivors, 3 were genuine misses at the time of the run (the two `optimize` index "
            "mutants and the generic `TermList` constructor); the checks were strengthened (C11 / C12 / C17: an exception "
            "where an answer is due is a wrong outcome, with agreement counters that must be non-zero; C05: operands are "
            "built without the generic constructor and lost terms are a violation) and `mutate.py recheck` confirms the "
            "two `optimize` mutants are now caught.  The others are equivalent mutants or change behaviour that none of the "
            "19 properties constrains (tactic order honoured, completeness of a tactic, statistics, messages)." % st.get("survived", 0)]
    with open(os.path.join(HERE, "mutation_report.md"), "w") as f:
        f.write("\n".join(out) + "\n")
    print("mutation_report.md: %d records, %d survivors untriaged" % (len(recs), missing))


main()
