#!/bin/sh
# Offline setup: install icontract (+ its pure-python deps) beside the checks.
# Everything else the checks need (z3-solver, numpy, scipy, pyparsing, sympy) is already in /venv.
set -e
cd "$(dirname "$0")"
if ! /venv/bin/python -c "import sys; sys.path.insert(0, '.deps'); import icontract" 2>/dev/null; then
  /venv/bin/pip install --quiet --no-index --find-links /opt/veriftools/wheels --target .deps icontract
fi
/venv/bin/python -c "import sys; sys.path.insert(0, '.deps'); import icontract, z3; print('setup ok: icontract', icontract.__version__, 'z3', z3.get_version_string())"
