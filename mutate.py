#!/venv/bin/python
"""Classic mutation operators on the pacti sources, to measure what the checks detect.

    mutate.py list                      -> prints the number of candidate mutants per file
    mutate.py recheck results.jsonl K.. -> re-runs the recorded mutants number K.. (1-based lines of the file) against
                                           the current checks and prints the outcome (nothing is written)
    mutate.py run N [seed] [out.jsonl]  -> samples N mutants; for each: scratch worktree of /repo, write the mutated
                                           file, run the repository suite (a mutant the tests kill is skipped), run
                                           the quick checks mapped to the mutated function with PACTI_VERIF_SRC,
                                           append one JSON line with the outcome.

Operators (one change per mutant): comparison flips (< <=, > >=, == !=), and/or, removal of `not`, removal of a unary
minus, + <-> -, * <-> /, integer constants 0 <-> 1, True <-> False, negated `if` condition, swapped arguments /
replaced callee for the list set-operations, deletion of `break` / `continue`.
Survivors are not necessarily misses: many mutants are equivalent or break no property; they are triaged by hand
(DESIGN.md section 8).
"""
import ast
import copy
import json
import os
import random
import re
import shutil
import subprocess
import sys
import tempfile
import time

VERIF = os.path.dirname(os.path.abspath(__file__))
PY = "/venv/bin/python"
SRC_FILES = [
    "src/pacti/terms/polyhedra/polyhedra.py",
    "src/pacti/iocontract/iocontract.py",
    "src/pacti/terms/polyhedra/serializer.py",
    "src/pacti/terms/polyhedra/syntax/grammar.py",
    "src/pacti/terms/polyhedra/syntax/data.py",
    "src/pacti/contracts/polyhedral_iocontract.py",
    "src/pacti/iocontract/compundiocontract.py",
    "src/pacti/utils/fileio.py",
    "src/pacti/utils/lists.py",
    "src/pacti/utils/plots.py",
]
SKIP_FUNCS = {"__str__", "__repr__", "plot_assumptions", "plot_guarantees", "_plot_constraints",
              "_plot_transformed_constraints", "get_path", "_factor_repr", "__post_init__"}


def props_for(path, func):
    f = func or ""
    if path.endswith("polyhedra.py"):
        if re.search(r"tactic|transform|kaykobad|tlp|context_reduction|solve_for|elim_vars|isolate|substitute|"
                     r"to_symbolic|to_term|is_sound", f):
            return ["C04", "C01", "C02"]
        if re.search(r"simplify|reduce_polytope", f):
            return ["C07", "C01", "C10"]
        if re.search(r"refines|verify_polytope|is_polytope_empty|is_empty|_solve_bounded", f):
            return ["C03", "C11", "C04", "C07"]
        if re.search(r"optimize", f):
            return ["C12"]
        if re.search(r"evaluate|contains_behavior", f):
            return ["C11", "C17"]
        if re.search(r"rename", f):
            return ["C16"]
        if re.search(r"__eq__|__hash__|copy", f):
            return ["C19", "C13", "C07"]
        if re.search(r"to_str_list", f):
            return ["C10"]
        return ["C04", "C07", "C03", "C19"]
    if path.endswith("iocontract/iocontract.py"):
        if re.search(r"compose|can_compose", f):
            return ["C01", "C05", "C06", "C15"]
        if re.search(r"quotient", f):
            return ["C02", "C05", "C06"]
        if re.search(r"merge", f):
            return ["C08", "C05", "C06"]
        if re.search(r"rename", f):
            return ["C16", "C06"]
        if re.search(r"refines|contains_|shares_io|__le__", f):
            return ["C03", "C06"]
        if re.search(r"__eq__|__hash__|copy", f):
            return ["C19", "C13"]
        if re.search(r"__init__|simplify", f):
            return ["C06", "C07", "C19"]
        return ["C01", "C19", "C13", "C06"]
    if path.endswith("serializer.py"):
        if re.search(r"validate|_check_clause|_is_number", f):
            return ["C14"]
        if re.search(r"to_strings|_lhs_str|_number_to_string|approximatively|opposite", f):
            return ["C10"]
        return ["C09", "C10"]
    if path.endswith("grammar.py") or path.endswith("data.py"):
        return ["C09", "C10"]
    if path.endswith("polyhedral_iocontract.py"):
        if re.search(r"optimize|bounds", f):
            return ["C12"]
        if re.search(r"rename", f):
            return ["C16"]
        if re.search(r"Compound|Nested", f) or (f.startswith("PolyhedralIoContractCompound")):
            return ["C17"]
        if re.search(r"compose|quotient", f):
            return ["C01", "C02", "C06"]
        return ["C10", "C14", "C19"]
    if path.endswith("compundiocontract.py"):
        return ["C17", "C19"]
    if path.endswith("fileio.py"):
        return ["C10", "C14"]
    if path.endswith("lists.py"):
        return ["C06", "C01", "C03", "C08"]
    if path.endswith("plots.py"):
        return ["C18"]
    return ["C14"]


class Collector(ast.NodeVisitor):
    """Enumerates mutation sites as (description, function, apply(tree_copy_node)) by node position."""

    def __init__(self):
        self.sites = []
        self.stack = []

    def fname(self):
        return ".".join(self.stack)

    def visit_ClassDef(self, node):
        self.stack.append(node.name)
        self.generic_visit(node)
        self.stack.pop()

    def visit_FunctionDef(self, node):
        if node.name in SKIP_FUNCS:
            return
        self.stack.append(node.name)
        self.generic_visit(node)
        self.stack.pop()

    def add(self, node, kind, detail):
        if not self.stack:
            return
        self.sites.append({"line": node.lineno, "col": node.col_offset, "kind": kind, "detail": detail,
                           "func": self.fname(), "type": type(node).__name__})

    def visit_Call(self, node):
        # skip logging
        if isinstance(node.func, ast.Attribute) and isinstance(node.func.value, ast.Name) and \
                node.func.value.id == "logging":
            return
        if isinstance(node.func, ast.Name) and node.func.id in ("list_union", "list_diff", "list_intersection") and \
                len(node.args) == 2:
            self.add(node, "swap-args", node.func.id)
            other = {"list_union": "list_intersection", "list_intersection": "list_union",
                     "list_diff": "list_intersection"}[node.func.id]
            self.add(node, "callee", node.func.id + "->" + other)
        self.generic_visit(node)

    def visit_Compare(self, node):
        if len(node.ops) == 1:
            op = node.ops[0]
            m = {ast.Lt: "LtE", ast.LtE: "Lt", ast.Gt: "GtE", ast.GtE: "Gt", ast.Eq: "NotEq", ast.NotEq: "Eq",
                 ast.In: "NotIn", ast.NotIn: "In", ast.Is: "IsNot", ast.IsNot: "Is"}.get(type(op))
            if m:
                self.add(node, "compare", type(op).__name__ + "->" + m)
        self.generic_visit(node)

    def visit_BoolOp(self, node):
        self.add(node, "boolop", type(node.op).__name__)
        self.generic_visit(node)

    def visit_UnaryOp(self, node):
        if isinstance(node.op, ast.Not):
            self.add(node, "drop-not", "")
        elif isinstance(node.op, ast.USub) and not isinstance(node.operand, ast.Constant):
            self.add(node, "drop-usub", "")
        self.generic_visit(node)

    def visit_BinOp(self, node):
        m = {ast.Add: "Sub", ast.Sub: "Add", ast.Mult: "Div", ast.Div: "Mult"}.get(type(node.op))
        if m and not (isinstance(node.left, ast.Constant) and isinstance(node.left.value, str)) and \
                not isinstance(node.op, ast.Mod):
            self.add(node, "binop", type(node.op).__name__ + "->" + m)
        self.generic_visit(node)

    def visit_Constant(self, node):
        if isinstance(node.value, bool):
            self.add(node, "const", "%r->%r" % (node.value, not node.value))
        elif isinstance(node.value, int) and node.value in (0, 1, -1, 2):
            self.add(node, "const", "%r->%r" % (node.value, {0: 1, 1: 0, -1: 1, 2: 1}[node.value]))

    def visit_If(self, node):
        self.add(node, "negate-if", "")
        self.generic_visit(node)

    def visit_Break(self, node):
        self.add(node, "del-break", "")

    def visit_Continue(self, node):
        self.add(node, "del-continue", "")


class Applier(ast.NodeTransformer):
    def __init__(self, site):
        self.site = site
        self.done = False

    def match(self, node, typ):
        s = self.site
        return (not self.done and type(node).__name__ == typ and getattr(node, "lineno", None) == s["line"]
                and getattr(node, "col_offset", None) == s["col"])

    def generic_visit(self, node):
        s = self.site
        k = s["kind"]
        if self.match(node, s["type"]):
            self.done = True
            if k == "compare":
                node.ops = [getattr(ast, s["detail"].split("->")[1])()]
            elif k == "boolop":
                node.op = ast.Or() if isinstance(node.op, ast.And) else ast.And()
            elif k == "drop-not" or k == "drop-usub":
                return node.operand
            elif k == "binop":
                node.op = getattr(ast, s["detail"].split("->")[1])()
            elif k == "const":
                node.value = eval(s["detail"].split("->")[1])  # noqa: S307
            elif k == "negate-if":
                node.test = ast.UnaryOp(op=ast.Not(), operand=node.test)
            elif k in ("del-break", "del-continue"):
                return ast.Pass()
            elif k == "swap-args":
                node.args = [node.args[1], node.args[0]]
            elif k == "callee":
                node.func = ast.Name(id=s["detail"].split("->")[1], ctx=ast.Load())
            return node
        return super().generic_visit(node)


def sites_of(path):
    with open(path) as f:
        src = f.read()
    tree = ast.parse(src)
    c = Collector()
    c.visit(tree)
    return src, tree, c.sites


def mutated_source(path, site):
    src, tree, _ = sites_of(path)
    t2 = Applier(site).visit(copy.deepcopy(tree))
    ast.fix_missing_locations(t2)
    return ast.unparse(t2)


def sh(cmd, **kw):
    return subprocess.run(cmd, shell=isinstance(cmd, str), capture_output=True, text=True, **kw)


def main():
    cmd = sys.argv[1] if len(sys.argv) > 1 else "list"
    allsites = []
    for rel in SRC_FILES:
        p = os.path.join("/repo", rel)
        _, _, sites = sites_of(p)
        for s in sites:
            s["file"] = rel
        allsites += sites
        if cmd == "list":
            print(rel, len(sites))
    if cmd == "list":
        print("total", len(allsites))
        return 0
    if cmd == "recheck":
        recs = [json.loads(ln) for ln in open(sys.argv[2])]
        sample = [{k: recs[int(i) - 1][k] for k in ("line", "col", "kind", "detail", "func", "type", "file")}
                  for i in sys.argv[3:]]
        out = os.devnull
    else:
        sample = None
    n = int(sys.argv[2]) if sample is None else len(sample)
    seed = int(sys.argv[3]) if len(sys.argv) > 3 and sample is None else 0
    out = out if sample is not None else sys.argv[4] if len(sys.argv) > 4 else os.path.join(VERIF, "mutation_results.jsonl")
    rng = random.Random(seed)
    if sample is None:
        sample = rng.sample(allsites, min(n, len(allsites)))
    for k, site in enumerate(sample):
        tree = tempfile.mkdtemp(prefix="mw_", dir="/tmp")
        os.rmdir(tree)
        r = sh(["git", "-C", "/repo", "worktree", "add", "-q", "--detach", tree, "HEAD"])
        rec = dict(site)
        try:
            target = os.path.join(tree, site["file"])
            try:
                new_src = mutated_source(target, site)
            except Exception as e:  # noqa: BLE001
                rec["status"] = "mutation-failed: %s" % e
                continue
            with open(target, "w") as f:
                f.write(new_src)
            # line of original source for the record
            with open(os.path.join("/repo", site["file"])) as f:
                rec["source_line"] = f.read().splitlines()[site["line"] - 1].strip()[:160]
            t0 = time.time()
            r = sh("cd %s && PYTHONPATH=%s/src %s -m pytest -q -x -p no:cacheprovider --timeout=300 2>&1 | tail -3" % (
                tree, tree, PY), timeout=1500)
            m = re.search(r"(\d+) passed", r.stdout)
            survived = bool(m and int(m.group(1)) == 144 and "failed" not in r.stdout and "error" not in r.stdout.lower())
            rec["suite"] = r.stdout.strip().splitlines()[-1][:100] if r.stdout.strip() else "?"
            if not survived:
                rec["status"] = "killed-by-tests"
                continue
            props = props_for(site["file"], site["func"])
            rec["checks"] = {}
            det = []
            for p in props:
                e2 = dict(os.environ, PACTI_VERIF_SRC=os.path.join(tree, "src"))
                r = sh([PY, "-m", "pvm.check", p, "--tier", "quick", "--no-evidence"], env=e2, cwd=VERIF, timeout=3600)
                lines = [ln[:300] for ln in r.stdout.splitlines() if ln.startswith(("  mechanism", "INCONCL"))]
                rec["checks"][p] = {"exit": r.returncode, "lines": lines[:2]}
                if r.returncode == 1:
                    det.append(p)
                    break  # one detection is enough
            rec["status"] = "detected" if det else ("inconclusive" if any(c["exit"] == 2 for c in
                                                                          rec["checks"].values()) else "survived")
            rec["detected_by"] = det
            rec["wall_s"] = round(time.time() - t0, 1)
        finally:
            sh(["git", "-C", "/repo", "worktree", "remove", "--force", tree])
            shutil.rmtree(tree, ignore_errors=True)
            with open(out, "a") as f:
                f.write(json.dumps(rec) + "\n")
            print("%d/%d %s:%d %s %s [%s] -> %s %s" % (k + 1, len(sample), site["file"].split("/")[-1], site["line"],
                                                      site["kind"], site["detail"], site["func"], rec.get("status"),
                                                      rec.get("detected_by", "")), flush=True)
    return 0


if __name__ == "__main__":
    sys.exit(main())
