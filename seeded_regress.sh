#!/bin/sh
# Re-run stored seeded changes against the quick check that is recorded as catching them (scratch worktrees, nothing
# stored).  Usage: seeded_regress.sh [name-regex]      e.g.  seeded_regress.sh '^(C07|R4)'
cd "$(dirname "$0")"
PAT=${1:-.}
for d in seeded/*/; do
  n=$(basename $d)
  echo "$n" | grep -Eq "$PAT" || continue
  p=$(/venv/bin/python -c "
import json,sys
m=json.load(open('$d/meta.json'))
c=m.get('confirmation') or {}
print(','.join(c.get('detected_by') or c.get('properties') or [str(m.get('property')).split()[0]]))")
  /venv/bin/python seeded_eval.py $d $n $p --no-store 2>&1 | head -1 | cut -c1-200
done
