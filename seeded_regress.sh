#!/bin/sh
# Re-run every stored seeded change against the quick check of its property (scratch worktrees, nothing stored).
cd "$(dirname "$0")"
for d in seeded/*/; do
  n=$(basename $d); p=${n%%-*}
  /venv/bin/python seeded_eval.py $d $n $p --no-store 2>&1 | head -1 | cut -c1-200
done
