#!/venv/bin/python
"""Validate MANIFEST.json and evidence/*.json against the schemas in /root/.vp (needs jsonschema in .deps)."""
import glob, json, os, sys
HERE = os.path.dirname(os.path.abspath(__file__))
sys.path.insert(0, os.path.join(HERE, ".deps"))
import jsonschema
ok = True
def v(path, schema):
    global ok
    try:
        jsonschema.validate(json.load(open(path)), json.load(open(schema)))
        print("valid  ", path)
    except Exception as e:
        ok = False
        print("INVALID", path, str(e)[:300])
v(os.path.join(HERE, "MANIFEST.json"), "/root/.vp/MANIFEST.schema.json")
for f in sorted(glob.glob(os.path.join(HERE, "evidence", "*.json"))):
    v(f, "/root/.vp/EVIDENCE.schema.json")
sys.exit(0 if ok else 1)
