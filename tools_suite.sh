#!/bin/sh
# Run the repository suite twice: the pinned baseline command (imports the installed pacti) and
# with PYTHONPATH=/repo/src (the run that actually exercises the working tree).
cd /repo
echo "== baseline (guard off)"; /venv/bin/python -m pytest -q -p no:cacheprovider --timeout=900 2>&1 | grep -E " passed| failed" | tail -2
echo "== PYTHONPATH=/repo/src"; PYTHONPATH=/repo/src /venv/bin/python -m pytest -q -p no:cacheprovider --timeout=900 2>&1 | grep -E " passed| failed" | tail -2
