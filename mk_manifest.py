#!/venv/bin/python
"""Regenerates MANIFEST.json from pvm/checks/meta.py (run after adding or changing a check)."""
import json
import os
import sys

HERE = os.path.dirname(os.path.abspath(__file__))
sys.path.insert(0, HERE)
from pvm.checks.meta import META, MANIFEST_TEXT, NOT_APPLICABLE  # noqa: E402

ALL = ["C%02d" % i for i in range(1, 20)]

checks = []
for pid in ALL:
    if pid not in META:
        continue
    m = META[pid]
    t = MANIFEST_TEXT[pid]
    checks.append({
        "property_id": pid,
        "quick_cmd": "/venv/bin/python -m pvm.check %s --tier quick" % pid,
        "thorough_cmd": "/venv/bin/python -m pvm.check %s --tier thorough" % pid,
        "evidence_file": "/verif/evidence/%s.json" % pid,
        "replay_cmd_template": "/venv/bin/python -m pvm.replay {path}",
        "engine": "pvm",
        "level_claimed": {"category": m["level"], "text": t["text"], "design_ref": "DESIGN.md section 3, " + pid},
        "level_note": t["note"],
        "technique": t["technique"],
    })

na = [{"property_id": pid, "reason": NOT_APPLICABLE.get(pid, "check not built yet (work in progress)")}
      for pid in ALL if pid not in META]

manifest = {
    "version": 1,
    "setup_cmd": "sh /verif/setup.sh",
    "hooks": {
        "guard": "PACTI_VERIF",
        "enable": ("no source hooks: with PACTI_VERIF=1 (set by every check) the harness imports pacti from /repo/src "
                   "and wraps class attributes, the TACTICS dict entries and the module-global linprog from outside"),
        "baseline_off_cmd": "cd /repo && /venv/bin/python -m pytest -ra -q -p no:cacheprovider --timeout=900 "
                            "--continue-on-collection-errors",
        "source_commits": [],
        "add_only": True,
    },
    "engines": [
        {"name": "pvm", "path": "/verif/pvm", "serves_properties": [c["property_id"] for c in checks],
         "kind_free_text": ("runtime monitors attached to the real pacti functions (recording wrappers, icontract "
                            "invariants), workloads (generated, bounded-exhaustive grids, repository corpus, "
                            "adversarial shapes), exact z3/Fraction oracle judging every observed call")},
    ],
    "checks": checks,
    "not_applicable": na,
    "notes": ("All checks: cwd /verif, honour VERIF_SEED / VERIF_TIER, run 16 worker processes, exit 0 held / 1 "
              "VIOLATION / 2 INCONCLUSIVE (a reach counter is zero or a worker failed). Genuine defects of the "
              "pinned tree were repaired by 'fix:' commits in /repo and are listed in known_findings.json (status "
              "fixed); the open entries there (C03, C07, C10) are the residue of one numerical family - the LP solver "
              "answering wrongly on systems that mix coefficients from 1e-4 to 1e6 - and are attached to a violation "
              "only when re-solving the LPs of that very call exactly establishes it (DESIGN.md 2.7)."),
}
with open(os.path.join(HERE, "MANIFEST.json"), "w") as f:
    json.dump(manifest, f, indent=1)
print("MANIFEST.json: %d checks, %d not_applicable" % (len(checks), len(na)))
