#!/bin/sh
# Run every registered check (default: quick tier) and summarise exit codes.  Usage: run_all.sh [tier] [seed] [extra args]
cd "$(dirname "$0")"
TIER=${1:-quick}; SEED=${2:-0}; shift 2 2>/dev/null
LOGD=$(mktemp -d /tmp/pvm_runall_XXXXXX)
for p in C01 C02 C03 C04 C05 C06 C07 C08 C09 C10 C11 C12 C13 C14 C15 C16 C17 C18 C19; do
  VERIF_SEED=$SEED /venv/bin/python -m pvm.check $p --tier $TIER "$@" > $LOGD/$p.log 2>&1
  rc=$?
  echo "$p exit=$rc $(tail -1 $LOGD/$p.log | cut -c1-160)"
  if [ $rc -ne 0 ]; then grep -E "^(VIOLATION|INCONCLUSIVE|  mechanism)" $LOGD/$p.log | head -6 | cut -c1-400; fi
done
rm -rf $LOGD
