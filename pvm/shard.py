"""Worker: runs one shard of one check in its own process and writes a JSON result."""
from __future__ import annotations

import importlib
import json
import sys
import traceback


def main(argv):
    prop, tier, seed, shard, nshards, out, soft_s = argv[0], argv[1], int(argv[2]), int(argv[3]), int(argv[4]), \
        argv[5], float(argv[6])
    from pvm import env

    try:
        env.bind()
    except env.ForeignPacti as e:
        json.dump({"fatal": "foreign-pacti: %s" % e}, open(out, "w"))
        return 0
    except Exception:  # noqa: BLE001  the tree under test does not import
        json.dump({"fatal": "import-failed: %s" % traceback.format_exc()[-1500:]}, open(out, "w"))
        return 0
    from pvm.core import Ctx

    try:
        mod = importlib.import_module("pvm.checks." + prop.lower())
    except Exception:  # noqa: BLE001
        json.dump({"fatal": "check-import-failed: %s" % traceback.format_exc()[-3000:]}, open(out, "w"))
        return 0
    ctx = Ctx(prop, tier, seed, shard, nshards, soft_s)
    from pvm import covmon

    cov_on = covmon.start(env.SRC) if shard % 4 == 0 else False  # line reach is sampled on every 4th shard
    try:
        mod.run(ctx)
    except Exception:  # noqa: BLE001
        ctx.monitor_error("shard crashed: " + traceback.format_exc()[-3000:])
    res = ctx.result()
    from pvm import exact

    res["oracle_stats"] = dict(exact.STATS)
    res["line_hits"] = covmon.result() if cov_on else {}
    with open(out, "w") as f:
        json.dump(res, f)
    return 0


if __name__ == "__main__":
    sys.exit(main(sys.argv[1:]))
