"""Workload generators (neutral representation; see pvm.exact).

All generators draw from the ``random.Random`` they are given; nothing here touches pacti.
Every generated term mentions at least one variable.
"""
from __future__ import annotations

import itertools
from typing import Any, Dict, List, Optional, Sequence, Tuple

VN = ["a", "b", "c", "d", "e", "f"]
SMALL = [-3, -2, -1, 1, 2, 3]
DYADIC = [-2.5, -1.5, -0.75, -0.5, -0.25, 0.25, 0.5, 0.75, 1.5, 2.5]
DECIMAL = [-1.2, -0.7, -0.3, -0.1, 0.1, 0.3, 0.7, 1.2, 3.3]


def T(coeffs: Dict[str, float], k: float) -> Dict[str, Any]:
    return {"c": {v: float(c) for v, c in coeffs.items() if c != 0}, "k": float(k)}


WIDE = [1.0, 2.0, 3.0, 0.5, 0.125, 1.234, 9.999, 12.5, 0.001, 0.0101, 4567.0, 0.3333, 78.9, 123400.0, 0.0001,
        2.5e5, 1e6, 1000.0, 0.02]


def wide_number(rng) -> float:
    """Magnitudes between 1e-4 and 1e6 (the range named by C10), mixed within one constraint."""
    if rng.random() < 0.7:
        return float(rng.choice(WIDE))
    return float("%.4g" % (10 ** rng.uniform(-4, 6)))


def coef(rng, style: str = "int") -> float:
    if style == "wide":
        return wide_number(rng) * rng.choice([1.0, -1.0])
    if style == "int":
        return float(rng.choice(SMALL))
    if style == "dyadic":
        return float(rng.choice(SMALL + DYADIC))
    if style == "decimal":
        return float(rng.choice(SMALL + DECIMAL))
    if style == "unit":
        return float(rng.choice([-1, 1]))
    if style == "float":
        return round(rng.uniform(-5, 5), rng.choice([1, 2, 3])) or 1.0
    raise ValueError(style)


def const(rng, style: str = "int", lo: int = -5, hi: int = 9) -> float:
    if style == "wide":
        x = wide_number(rng)
        return x if (lo >= 0 or rng.random() < 0.6) else -x
    if style in ("int", "unit"):
        return float(rng.randint(lo, hi))
    if style == "dyadic":
        return rng.randint(lo * 4, hi * 4) / 4.0
    if style == "decimal":
        return round(rng.uniform(lo, hi), 1)
    if style == "float":
        return round(rng.uniform(lo, hi), rng.choice([1, 2, 3]))
    raise ValueError(style)


def rterm(rng, vs: Sequence[str], kmax: int = 3, style: str = "int", must: Optional[Sequence[str]] = None,
          lo: int = -5, hi: int = 9) -> Dict[str, Any]:
    k = rng.randint(1, min(kmax, len(vs)))
    sel = rng.sample(list(vs), k)
    if must and not (set(sel) & set(must)):
        sel[0] = rng.choice(list(must))
    sel = list(dict.fromkeys(sel))
    return T({v: coef(rng, style) for v in sel}, const(rng, style, lo, hi))


def rlist(rng, vs: Sequence[str], n: int, kmax: int = 3, style: str = "int", **kw) -> List[Dict[str, Any]]:
    return [rterm(rng, vs, kmax, style, **kw) for _ in range(n)]


def bounds(rng, v: str, lo: Optional[float] = None, hi: Optional[float] = None, style: str = "int") -> List[Dict]:
    """lo <= v <= hi as two terms."""
    if hi is None:
        hi = const(rng, style, 2, 9)
    if lo is None:
        lo = hi - abs(const(rng, style, 1, 9))
    return [T({v: 1.0}, hi), T({v: -1.0}, -lo)]


def scale(t: Dict[str, Any], f: float) -> Dict[str, Any]:
    return {"c": {v: c * f for v, c in t["c"].items()}, "k": t["k"] * f}


def add(t1: Dict[str, Any], t2: Dict[str, Any], f1: float = 1.0, f2: float = 1.0) -> Optional[Dict[str, Any]]:
    c: Dict[str, float] = {}
    for v, x in t1["c"].items():
        c[v] = c.get(v, 0.0) + f1 * x
    for v, x in t2["c"].items():
        c[v] = c.get(v, 0.0) + f2 * x
    c = {v: x for v, x in c.items() if x != 0}
    if not c:
        return None
    return {"c": c, "k": f1 * t1["k"] + f2 * t2["k"]}


def weaken(rng, t: Dict[str, Any], style: str = "int") -> Dict[str, Any]:
    return {"c": dict(t["c"]), "k": t["k"] + abs(const(rng, style, 0, 4))}


def pick_style(rng) -> str:
    return rng.choice(["int", "int", "int", "dyadic", "decimal", "unit", "float"])


TACTIC_ORDERS: List[Optional[List[int]]] = [[1], [2], [3], [4], [5], None]


def rorder(rng) -> Optional[List[int]]:
    r = rng.random()
    if r < 0.45:
        return rng.choice(TACTIC_ORDERS)
    if r < 0.6:
        return None
    if r < 0.8:
        p = [1, 2, 3, 4, 5]
        rng.shuffle(p)
        return p
    k = rng.randint(1, 4)
    return rng.sample([1, 2, 3, 4, 5], k)


# --------------------------------------------------------------------------------------
# elimination cases (C04)


def elim_case_random(rng) -> Dict[str, Any]:
    style = pick_style(rng)
    nv = rng.randint(2, 6)
    vs = VN[:nv]
    terms = rlist(rng, vs, rng.randint(1, 4), 3, style)
    ctx = rlist(rng, vs, rng.randint(0, 4), 3, style)
    elim = rng.sample(vs, rng.randint(1, min(3, nv)))
    return {"terms": terms, "ctx": ctx, "elim": elim}


def elim_case_boxed(rng) -> Dict[str, Any]:
    """Every eliminated variable is boxed by the context (the usual situation in compositions)."""
    style = pick_style(rng)
    nv = rng.randint(2, 6)
    vs = VN[:nv]
    elim = rng.sample(vs, rng.randint(1, min(3, nv - 1)))
    keep = [v for v in vs if v not in elim]
    terms = [rterm(rng, vs, 3, style, must=elim) for _ in range(rng.randint(1, 3))]
    ctx: List[Dict[str, Any]] = []
    for v in elim:
        r = rng.random()
        if r < 0.5:
            ctx += bounds(rng, v, style=style)
        elif r < 0.8 and keep:
            # v tracked by a kept variable:  |v - g*k| <= c
            k = rng.choice(keep)
            g = coef(rng, style)
            c = abs(const(rng, style, 0, 4))
            ctx += [T({v: 1.0, k: -g}, c), T({v: -1.0, k: g}, c)]
        else:
            ctx += [rterm(rng, vs, 2, style, must=[v])]
    if rng.random() < 0.5:
        ctx += rlist(rng, keep or vs, rng.randint(0, 2), 2, style)
    rng.shuffle(ctx)
    return {"terms": terms, "ctx": ctx, "elim": elim}


def elim_case_wrongdir(rng) -> Dict[str, Any]:
    """Context bounds the variable only from the useless side, or only one side of several vars."""
    style = pick_style(rng)
    vs = VN[: rng.randint(2, 4)]
    x = vs[0]
    a = coef(rng, style)
    term = T({x: a, **{v: coef(rng, style) for v in rng.sample(vs[1:], rng.randint(0, len(vs) - 1))}},
             const(rng, style))
    s = 1.0 if rng.random() < 0.5 else -1.0
    ctx = [T({x: s}, const(rng, style))]
    if rng.random() < 0.5:
        ctx.append(T({x: s, vs[1]: coef(rng, style)}, const(rng, style)))
    if rng.random() < 0.3:
        ctx.append(T({x: s * 2}, const(rng, style)))
    return {"terms": [term], "ctx": ctx, "elim": [x]}


def elim_case_chain(rng) -> Dict[str, Any]:
    """x bounded through another eliminated variable w, which is bounded by kept ones."""
    style = pick_style(rng)
    x, w, y, z = "a", "b", "c", "d"
    a = coef(rng, style)
    term = T({x: a, y: coef(rng, style) if rng.random() < 0.7 else 0.0}, const(rng, style))
    ctx = []
    for sgn in ([1.0, -1.0] if rng.random() < 0.7 else [rng.choice([1.0, -1.0])]):
        g = coef(rng, style)
        ctx.append(T({x: sgn * abs(coef(rng, style)), w: g}, const(rng, style)))
    for sgn in ([1.0, -1.0] if rng.random() < 0.7 else [rng.choice([1.0, -1.0])]):
        if rng.random() < 0.5:
            ctx.append(T({w: sgn * abs(coef(rng, style))}, const(rng, style)))
        else:
            ctx.append(T({w: sgn * abs(coef(rng, style)), z: coef(rng, style)}, const(rng, style)))
    if rng.random() < 0.3:
        ctx += rlist(rng, [x, w, y, z], 1, 2, style)
    rng.shuffle(ctx)
    return {"terms": [term], "ctx": ctx, "elim": [x, w]}


def elim_case_degenerate(rng) -> Dict[str, Any]:
    """Duplicate / parallel / scaled context rows -> degenerate LP optima, ties between active rows."""
    base = elim_case_boxed(rng)
    ctx = list(base["ctx"])
    for _ in range(rng.randint(1, 3)):
        if not ctx:
            break
        t = rng.choice(ctx)
        r = rng.random()
        if r < 0.35:
            ctx.append({"c": dict(t["c"]), "k": t["k"]})
        elif r < 0.7:
            ctx.append(scale(t, float(rng.choice([2, 3, 0.5]))))
        else:
            ctx.append({"c": dict(t["c"]), "k": t["k"] + rng.choice([0.0, 1.0])})
    rng.shuffle(ctx)
    base["ctx"] = ctx
    return base


def elim_case_kaykobad(rng) -> Dict[str, Any]:
    """Contexts shaped for tactics 1 and 3: one row per eliminated variable, diagonally dominant,
    with the sign pattern the tactic looks for, plus kept variables on the rows."""
    style = rng.choice(["int", "int", "dyadic"])
    ne = rng.randint(1, 3)
    elim = VN[:ne]
    keep = VN[ne: ne + rng.randint(1, 2)]
    refine = rng.random() < 0.5
    tcoef = {v: coef(rng, style) for v in elim}
    term = T({**tcoef, **({keep[0]: coef(rng, style)} if rng.random() < 0.6 else {})}, const(rng, style))
    ctx = []
    for i, v in enumerate(elim):
        sign = (1.0 if tcoef[v] > 0 else -1.0) * (1.0 if refine else -1.0)
        row = {v: sign * float(rng.choice([2, 3, 4]))}
        for u in elim:
            if u != v and rng.random() < 0.4:
                su = (1.0 if tcoef[u] > 0 else -1.0) * (1.0 if refine else -1.0)
                row[u] = su * float(rng.choice([0.25, 0.5, 1.0]))
        for kv in keep:
            if rng.random() < 0.7:
                row[kv] = coef(rng, style)
        ctx.append(T(row, const(rng, style)))
    if rng.random() < 0.4:
        ctx += rlist(rng, elim + keep, 1, 2, style)
    rng.shuffle(ctx)
    return {"terms": [term] + (rlist(rng, elim + keep, 1, 2, style) if rng.random() < 0.3 else []), "ctx": ctx,
            "elim": elim, "refine_hint": refine}


def elim_case_kaykobad_sum(rng) -> Dict[str, Any]:
    """Three or four eliminated variables in one term; every context row passes the pairwise tests of the
    context-reduction tactic, but the off-diagonal entries on one column only add up to more than the term's own
    coefficient when all rows are taken together (the accumulated column test)."""
    ne = rng.choice([3, 3, 4])
    elim = ["b", "c", "d", "e"][:ne]
    refine = rng.random() < 0.6
    sgn = 1.0 if refine else -1.0
    tsign = {v: rng.choice([1.0, -1.0]) for v in elim}
    term = T({"a": float(rng.choice([1, -1, 2])), **{v: tsign[v] for v in elim}}, float(rng.randint(2, 12)))
    col = rng.choice(elim)
    rows = []
    for v in elim:
        row = {v: sgn * tsign[v]}
        if v != col:
            row[col] = sgn * tsign[col] * rng.choice([0.4, 0.5, 0.625, 0.75])
        rows.append(T(row, float(rng.randint(1, 3))))
    order = list(rows)
    rng.shuffle(order) if rng.random() < 0.5 else None
    return {"terms": [term], "ctx": order, "elim": elim, "refine_hint": refine}


def elim_case_cone(rng) -> Dict[str, Any]:
    """A homogeneous context (constants 0, a cone): every LP optimum sits at the degenerate apex where all rows are
    tight, so a tactic that picks among active rows has many to choose from; the term mentions only one of the two
    variables to eliminate, so a proposal can come back half finished."""
    p, q, r, u = (float(rng.choice([1, 1, 2, 3])) for _ in range(4))
    sb, sc = rng.choice([1.0, -1.0]), rng.choice([1.0, -1.0])
    rows = [T({"d": 1.0, "b": sb * p, "c": -sc * q}, 0.0), T({"d": 1.0, "b": -sb * r, "c": sc * u}, 0.0),
            T({"d": -1.0}, 0.0)]
    if rng.random() < 0.6:
        rows.append(T({"b": -sb, "c": -sc}, 0.0))
    if rng.random() < 0.3:
        rows[rng.randrange(len(rows))]["k"] = float(rng.choice([1, 2]))
    rng.shuffle(rows) if rng.random() < 0.6 else None
    term = T({"a": float(rng.choice([1, 2])), "b": -sb * float(rng.choice([1, 1, 2]))}, float(rng.choice([0, 0, 1, 3])))
    if rng.random() < 0.3:
        term["c"]["c"] = sc * float(rng.choice([1, -1]))
    return {"terms": [term], "ctx": rows, "elim": ["b", "c"], "refine_hint": True}


def elim_case_coincide(rng) -> Dict[str, Any]:
    """A chain whose last link bounds the eliminated variable from the useless side, with the term that a
    wrong-direction substitution would produce already present in the context (as a bound on the kept variable)."""
    c, d, u = float(rng.randint(-2, 3)), float(rng.randint(-2, 2)), float(rng.randint(0, 4))
    m = rng.choice([1.0, -1.0])          # mirror the eliminated variables
    f = float(rng.choice([1, 1, 2]))     # scale the chain rows
    x, y, z = "a", "b", "c"
    term = T({x: 1.0, y: -m}, c)
    ctx = [T({z: m * f, y: -m * f}, d * f), T({z: m}, u)]
    if rng.random() < 0.5:
        ctx.append(T({x: 1.0}, c - d + u))
    else:
        # ... or the wrong-side variable pinned to a sliver: the wrong-direction substitution is then off by its
        # width, a few times the tolerance of the numerical reading
        k = c - d + u
        w = rng.choice([2.0, 3.0, 5.0, 8.0]) * 1e-4 * (1 + abs(k))
        ctx.append(T({z: -m}, -(u - w)))
    if rng.random() < 0.4:
        ctx.append(T({x: -1.0}, float(rng.randint(0, 5))))
    if rng.random() < 0.3:
        ctx.append(rterm(rng, [x, "d"], 2, "int"))
    rng.shuffle(ctx)
    terms = [term] + ([T({x: 1.0, "d": 1.0}, float(rng.randint(0, 5)))] if rng.random() < 0.3 else [])
    return {"terms": terms, "ctx": ctx, "elim": [y, z], "refine_hint": True}


ELIM_FAMILIES = [
    ("random", elim_case_random, 4),
    ("boxed", elim_case_boxed, 4),
    ("wrongdir", elim_case_wrongdir, 1),
    ("chain", elim_case_chain, 3),
    ("degenerate", elim_case_degenerate, 2),
    ("kaykobad", elim_case_kaykobad, 3),
    ("coincide", elim_case_coincide, 1),
    ("kaykobad_sum", elim_case_kaykobad_sum, 1),
    ("cone", elim_case_cone, 1),
]


def elim_case(rng) -> Dict[str, Any]:
    tot = sum(w for _, _, w in ELIM_FAMILIES)
    r = rng.uniform(0, tot)
    for name, fn, w in ELIM_FAMILIES:
        r -= w
        if r <= 0:
            break
    c = fn(rng)
    c["family"] = name
    if c["terms"] and rng.random() < 0.06:
        # the same term twice in the list (exact copy): each copy still has to be transformed on its own
        t = rng.choice(c["terms"])
        c["terms"].insert(rng.randint(0, len(c["terms"])), {"c": dict(t["c"]), "k": t["k"]})
    hint = c.pop("refine_hint", None)
    c["refine"] = hint if (hint is not None and rng.random() < 0.8) else (rng.random() < 0.55)
    c["simplify"] = rng.random() < 0.5
    c["order"] = rorder(rng)
    return c


def elim_grid() -> List[Dict[str, Any]]:
    """The complete two-variable grid of C04 (see DESIGN.md): 24 terms x 137 contexts x 6 orders x 2 modes."""
    terms = [T({"x": a, "y": b}, c) for a in (-2, -1, 1, 2) for b in (-1, 0, 1) for c in (0, 1)]
    rows = [T({"x": p, "y": q}, c) for p in (-1, 0, 1) for q in (-1, 0, 1) if (p, q) != (0, 0) for c in (0, 1)]
    ctxs: List[List[Dict[str, Any]]] = [[]] + [[r] for r in rows] + [list(p) for p in
                                                                       itertools.combinations(rows, 2)]
    out = []
    for t in terms:
        for ctx in ctxs:
            for order in TACTIC_ORDERS:
                for refine in (True, False):
                    out.append({"terms": [t], "ctx": ctx, "elim": ["x"], "refine": refine, "simplify": False,
                                "order": order, "family": "grid2"})
    return out


def elim_grid3(rng, n: int) -> List[Dict[str, Any]]:
    """Sample of the three-variable grid: eliminate {x} or {x,z}."""
    out = []
    cs = (-1, 0, 1)
    rows = [T({"x": p, "y": q, "z": r}, c) for p in cs for q in cs for r in cs if (p, q, r) != (0, 0, 0)
            for c in (0, 1)]
    for _ in range(n):
        t = T({"x": rng.choice((-2, -1, 1, 2)), "y": rng.choice(cs), "z": rng.choice(cs)}, rng.choice((0, 1)))
        ctx = rng.sample(rows, rng.randint(0, 3))
        out.append({"terms": [t], "ctx": ctx, "elim": rng.choice([["x"], ["x", "z"]]),
                    "refine": rng.random() < 0.5, "simplify": rng.random() < 0.5,
                    "order": rng.choice(TACTIC_ORDERS), "family": "grid3"})
    return out


# --------------------------------------------------------------------------------------
# contracts and wirings (C01, C02, C06, C08, C15 ...)


def rcontract(rng, ins: Sequence[str], outs: Sequence[str], style: str = "int", bounded: Optional[bool] = None,
              na: Optional[int] = None, ng: Optional[int] = None, gain: Optional[bool] = None) -> Dict[str, Any]:
    """A random contract over the given interface.

    bounded: assumptions box every input; gain: guarantees of the form |o - k*i| <= c (the DSP/dCas9
    corpus shape) instead of random sparse terms.
    """
    ins = list(ins)
    outs = list(outs)
    if bounded is None:
        bounded = rng.random() < 0.5
    if gain is None:
        gain = rng.random() < 0.4
    a: List[Dict[str, Any]] = []
    g: List[Dict[str, Any]] = []
    if ins:
        if bounded:
            for v in ins:
                if rng.random() < 0.85:
                    a += bounds(rng, v, style=style)
                else:
                    a += [T({v: rng.choice([1.0, -1.0])}, const(rng, style, 0, 9))]
        n = rng.randint(0, 2) if na is None else na
        a += rlist(rng, ins, n, 2, style)
    if outs:
        if gain and ins:
            for o in outs:
                i = rng.choice(ins)
                kk = coef(rng, style)
                c = abs(const(rng, style, 0, 4))
                r = rng.random()
                if r < 0.6:
                    g += [T({o: 1.0, i: -kk}, c), T({o: -1.0, i: kk}, c)]
                elif r < 0.8:
                    g += [T({o: 1.0, i: -kk}, c)]
                else:
                    g += [T({o: 1.0, i: -kk}, c), T({o: -1.0, i: kk}, abs(const(rng, style, 0, 4)))]
        else:
            n = rng.randint(1, 3) if ng is None else ng
            g += [rterm(rng, ins + outs, 3, style, must=outs) for _ in range(n)]
        if rng.random() < 0.25:
            for o in outs:
                if rng.random() < 0.5:
                    g += bounds(rng, o, style=style)
    elif ins and rng.random() < 0.3:
        g += rlist(rng, ins, 1, 2, style)
    if rng.random() < 0.8:
        # make the contract satisfiable: every constant is raised, where necessary, so that a hidden small-integer
        # point satisfies all assumptions and guarantees (20 % of the contracts stay as drawn: the unsatisfiable
        # ones exercise the ValueError paths)
        pt = {v: float(rng.randint(-3, 3)) for v in ins + outs}
        for t in a + g:
            val = sum(c * pt.get(v, 0.0) for v, c in t["c"].items())
            if val > t["k"]:
                t["k"] = val + float(rng.choice([0, 0, 1, 2])) if style in ("int", "unit") else \
                    val + rng.choice([0.0, 0.5, 1.0, 2.25])
    return {"in": ins, "out": outs, "a": a, "g": g}


WIRINGS = ["indep", "cascade", "cascade_rev", "shared_in", "feedback", "mixed", "fan"]


def wiring(rng, kind: Optional[str] = None) -> Tuple[str, List[str], List[str], List[str], List[str]]:
    """Returns (kind, ins1, outs1, ins2, outs2)."""
    kind = kind or rng.choice(WIRINGS)
    if kind == "indep":
        return kind, ["i1", "i2"][: rng.randint(1, 2)], ["o1"], ["j1"], ["p1", "p2"][: rng.randint(1, 2)]
    if kind in ("cascade", "cascade_rev"):
        m = ["m1", "m2"][: rng.randint(1, 2)]
        i1 = ["i1", "i2"][: rng.randint(1, 2)]
        o1 = m + (["o1"] if rng.random() < 0.5 else [])
        i2 = m + (["j1"] if rng.random() < 0.5 else [])
        o2 = ["p1"] + (["p2"] if rng.random() < 0.3 else [])
        if kind == "cascade":
            return kind, i1, o1, i2, o2
        return kind, i2, o2, i1, o1
    if kind == "shared_in":
        return kind, ["s1", "i1"], ["o1"], ["s1", "j1"], ["p1"]
    if kind == "feedback":
        return kind, ["i1", "f2"], ["f1", "o1"], ["f1", "j1"], ["f2", "p1"]
    if kind == "mixed":
        return kind, ["i1", "s1"], ["m1", "o1"], ["m1", "s1", "j1"], ["p1", "p2"]
    if kind == "fan":
        return kind, ["i1"], ["m1", "m2", "o1"], ["m1", "m2", "i1"], ["p1"]
    raise ValueError(kind)


# --------------------------------------------------------------------------------------
# containment pairs (C03)


def feasible_point_list(rng, vs: Sequence[str], n: int, style: str = "int") -> List[Dict[str, Any]]:
    """n random terms that all hold at a hidden random integer point (so the list is feasible)."""
    pt = {v: float(rng.randint(-3, 3)) for v in vs}
    out = []
    for _ in range(n):
        t = rterm(rng, vs, 3, style)
        val = sum(c * pt[v] for v, c in t["c"].items())
        t["k"] = val + abs(const(rng, style, 0, 4))
        out.append(t)
    return out


def containment_pair(rng) -> Dict[str, Any]:  # noqa: C901
    fam = rng.choice(["unrelated", "weaken", "farkas", "boundary", "separated", "reflexive", "sublist",
                      "unbounded", "emptyleft", "emptyright", "near", "unrelated", "farkas", "weaken", "huge",
                      "steep"])
    if fam == "steep":
        # a row with large coefficients and a small constant; the left side states the same row moved by a few
        # tolerances (of the *constant*) either way - the answer must not depend on the size of the coefficients
        vs = VN[: rng.randint(1, 3)]
        sel = rng.sample(vs, rng.randint(1, len(vs)))
        mag = float(rng.choice([4096, 8192, 1e4, 65536, 1e5, 250000, 1e6]))
        co = {v: rng.choice([1.0, -1.0]) * mag * rng.choice([1.0, 0.5, 3.0]) for v in sel}
        k = float(rng.choice([0, 1, -1, 2.5, 10, 0.125]))
        tol = 1e-4 * (1 + abs(k))
        eps = rng.choice([0.0, 3 * tol, 5 * tol, 20 * tol, -3 * tol, -5 * tol, 2.5 * tol, 1e-9])
        left = [T(co, k + eps)]
        for v in vs:
            left += bounds(rng, v, -3.0, 3.0)
        if rng.random() < 0.5:
            rng.shuffle(left)
        right = [T(co, k)] if rng.random() < 0.7 else [scale(T(co, k), float(rng.choice([2, 0.5])))]
        return {"kind": "list", "family": fam, "style": "int", "left": left, "right": right}
    if fam == "huge":
        # constants (and some coefficients) far beyond the usual range: the right side is missed by a wide margin
        # or contains the left side with a wide margin
        vs = VN[: rng.randint(1, 3)]
        left = feasible_point_list(rng, vs, rng.randint(1, 3), "int")
        v = rng.choice(vs)
        big = float(rng.choice([1e5, 1e6, 1e7, 1e8, 1e9])) * rng.choice([1.0, 2.0, 2.5])
        co = float(rng.choice([1, 2, 1000, 100000]))
        sign = rng.choice([1.0, -1.0])
        if rng.random() < 0.5:
            right = [T({v: sign * co}, -big)]          # needs |v| >= big/co: far away from the left side
        else:
            right = [T({v: sign * co}, big)]
            left = left + bounds(rng, v, -3.0, 3.0)     # contained with a wide margin
            if rng.random() < 0.5:
                # ... next to a row with a small constant that the left side misses (or meets) by a moderate amount:
                # the verdict on one row must not depend on the size of another row's constant
                u = rng.choice(vs)
                left = left + bounds(rng, u, -3.0, 3.0)
                d = rng.choice([0.05, 0.25, 0.4, 1.0, -0.25, 0.0])
                right.insert(rng.randint(0, 1), T({u: 1.0}, 3.0 - d) if rng.random() < 0.5 else T({u: -1.0}, 3.0 - d))
        return {"kind": "list", "family": fam, "style": "int", "left": left, "right": right}
    style = rng.choice(["int", "int", "dyadic", "int", "decimal", "float", "wide"])
    if fam in ("near",):
        style = "int"
    nv = rng.randint(1, 4)
    vs = VN[:nv]
    nl = rng.randint(1, 5)
    left = feasible_point_list(rng, vs, nl, style) if rng.random() < 0.8 else rlist(rng, vs, nl, 3, style)
    right: List[Dict[str, Any]]
    if fam == "unrelated":
        right = rlist(rng, vs, rng.randint(1, 3), 3, style)
    elif fam == "weaken":
        sel = rng.sample(left, rng.randint(1, len(left)))
        right = [weaken(rng, t, style) if rng.random() < 0.7 else dict(t) for t in sel]
    elif fam == "farkas":
        right = []
        for _ in range(rng.randint(1, 3)):
            acc = None
            for t in rng.sample(left, rng.randint(1, min(3, len(left)))):
                f = float(rng.choice([1, 2, 3, 0.5]))
                acc = scale(t, f) if acc is None else add(acc, t, 1.0, f)
                if acc is None:
                    break
            if acc is None:
                continue
            if rng.random() < 0.5:
                acc["k"] += abs(const(rng, style, 0, 3))
            right.append(acc)
        if not right:
            right = [dict(left[0])]
    elif fam == "boundary":
        right = []
        for t in rng.sample(left, rng.randint(1, len(left))):
            r = rng.random()
            if r < 0.4:
                right.append({"c": dict(t["c"]), "k": t["k"]})
            elif r < 0.8:
                right.append(scale(t, float(rng.choice([2, 3, 4, 0.5, 0.25]))))
            else:
                right += [{"c": dict(t["c"]), "k": t["k"]}] * 2
    elif fam == "separated":
        r = rterm(rng, vs, 3, style)
        gap = abs(const(rng, style, 1, 4)) + 1.0
        beyond = {"c": {v: -c for v, c in r["c"].items()}, "k": -(r["k"] + gap)}
        left = left[: rng.randint(0, 2)] + [beyond]
        right = [r] + rlist(rng, vs, rng.randint(0, 2), 3, style)
        rng.shuffle(right)
    elif fam == "reflexive":
        right = [{"c": dict(t["c"]), "k": t["k"]} for t in left]
        if rng.random() < 0.3:
            rng.shuffle(right)
    elif fam == "sublist":
        right = [dict(t) for t in rng.sample(left, rng.randint(1, len(left)))]
    elif fam == "unbounded":
        vs = VN[: rng.randint(3, 5)]
        left = feasible_point_list(rng, vs, rng.randint(1, 2), style)
        right = [weaken(rng, rng.choice(left), style)] if rng.random() < 0.5 else rlist(rng, vs, 1, 2, style)
    elif fam == "emptyleft":
        t = rterm(rng, vs, 2, style)
        left = left + [t, {"c": {v: -c for v, c in t["c"].items()}, "k": -(t["k"] + 1 + abs(const(rng, style, 0, 3)))}]
        rng.shuffle(left)
        right = rlist(rng, vs, rng.randint(1, 3), 3, style)
    elif fam == "emptyright":
        t = rterm(rng, vs, 2, style)
        right = [t, {"c": {v: -c for v, c in t["c"].items()}, "k": -(t["k"] + 1 + abs(const(rng, style, 0, 3)))}]
        right += rlist(rng, vs, rng.randint(0, 1), 2, style)
        rng.shuffle(right)
    else:  # near: right bound just inside / outside the left one
        t = rng.choice(left)
        eps = rng.choice([0.0, 1e-9, -1e-9, 1e-6, -1e-6, 1e-3, -1e-3, 1e-2, -1e-2, 0.5, -0.5])
        right = [{"c": dict(t["c"]), "k": t["k"] + eps}]
    return {"kind": "list", "family": fam, "style": style, "left": left, "right": right}


def contract_pair(rng) -> Dict[str, Any]:
    """Two contracts over a common interface for the refinement test."""
    style = rng.choice(["int", "int", "dyadic", "decimal"])
    ins = ["i1", "i2"][: rng.randint(1, 2)]
    outs = ["o1", "o2"][: rng.randint(1, 2)]
    c1 = rcontract(rng, ins, outs, style)
    fam = rng.choice(["unrelated", "weaker", "under_assumptions", "same", "stronger", "iface"])
    if fam == "unrelated":
        c2 = rcontract(rng, ins, outs, style)
    elif fam == "same":
        c2 = {"in": list(ins), "out": list(outs), "a": [dict(t) for t in c1["a"]], "g": [dict(t) for t in c1["g"]]}
        if rng.random() < 0.5:
            rng.shuffle(c2["in"])
            rng.shuffle(c2["out"])
    elif fam == "weaker":
        # c2 assumes more, guarantees less  ->  c1 <= c2
        a2 = [dict(t) for t in c1["a"]] + rlist(rng, ins, rng.randint(0, 2), 2, style)
        g2 = [weaken(rng, t, style) if rng.random() < 0.6 else dict(t) for t in c1["g"]]
        g2 = rng.sample(g2, rng.randint(1, len(g2))) if g2 else g2
        c2 = {"in": list(ins), "out": list(outs), "a": a2, "g": g2}
    elif fam == "stronger":
        a2 = rng.sample(c1["a"], rng.randint(0, len(c1["a"]))) if c1["a"] else []
        g2 = [dict(t) for t in c1["g"]] + [rterm(rng, ins + outs, 2, style, must=outs)]
        c2 = {"in": list(ins), "out": list(outs), "a": [dict(t) for t in a2], "g": g2}
    elif fam == "under_assumptions":
        # G1 subset G2 only where A2 holds:  A2: i <= u ; G1: o <= i + c ; G2: o <= u + c
        i, o = ins[0], outs[0]
        u = const(rng, style, 0, 5)
        cc = abs(const(rng, style, 0, 3))
        c1 = {"in": list(ins), "out": list(outs), "a": [], "g": [T({o: 1.0, i: -1.0}, cc)]}
        c2 = {"in": list(ins), "out": list(outs), "a": [T({i: 1.0}, u)],
              "g": [T({o: 1.0}, u + cc + rng.choice([0.0, 0.0, 1.0, -1.0]))]}
    else:  # iface
        ins2 = list(ins)
        outs2 = list(outs)
        r = rng.random()
        if r < 0.25:
            ins2 = ins2 + ["zz"]
        elif r < 0.5:
            outs2 = outs2 + ["zz"]
        elif r < 0.7:
            outs2 = ["q" + o for o in outs2]
        elif r < 0.85 or len(outs2) < 2:
            # the same names, two of them in exchanged roles
            ins2[0], outs2[0] = outs2[0], ins2[0]
        else:
            # the same names, one output of the first contract is an input of the second
            ins2 = ins2 + [outs2.pop()]
        c2 = rcontract(rng, ins2, outs2, style)
        if "zz" in ins2 + outs2 and rng.random() < 0.5:
            # the very same constraints; only the interface is wider, by a variable that nothing mentions
            c2 = {"in": ins2, "out": outs2, "a": [dict(c=dict(t["c"]), k=t["k"]) for t in c1["a"]],
                  "g": [dict(c=dict(t["c"]), k=t["k"]) for t in c1["g"]]}
    return {"kind": "contract", "family": fam, "style": style, "c1": c1, "c2": c2}


def membership_case(rng) -> Dict[str, Any]:
    style = rng.choice(["int", "int", "dyadic"])
    ins = ["i1", "i2"][: rng.randint(1, 2)]
    outs = ["o1"]
    c = rcontract(rng, ins, outs, style)
    if rng.random() < 0.5:
        kind = "env"
        base = c["a"]
        vs = ins
    else:
        kind = "impl"
        base = c["g"]
        vs = ins + outs
    r = rng.random()
    if base and r < 0.4:
        comp = [dict(t) for t in base] + rlist(rng, vs, rng.randint(0, 2), 2, style)  # stronger -> member
    elif base and r < 0.6:
        comp = [weaken(rng, t, style) for t in base]
    else:
        comp = rlist(rng, vs, rng.randint(1, 3), 2, style)
    return {"kind": kind, "family": kind, "style": style, "contract": c, "comp": comp}


# --------------------------------------------------------------------------------------
# composition / quotient cases (C01, C02, C15)


def dup_noise(rng, c: Dict[str, Any]) -> Dict[str, Any]:
    """Plant redundant / duplicated / scaled terms."""
    for key in ("a", "g"):
        lst = c[key]
        if lst and rng.random() < 0.25:
            t = rng.choice(lst)
            r = rng.random()
            if r < 0.4:
                lst.append({"c": dict(t["c"]), "k": t["k"]})
            elif r < 0.7:
                lst.append(scale(t, float(rng.choice([2, 0.5, 3]))))
            else:
                lst.append({"c": dict(t["c"]), "k": t["k"] + float(rng.choice([1, 2]))})
    return c


def compose_case(rng, kind: Optional[str] = None) -> Dict[str, Any]:
    kind, i1, o1, i2, o2 = wiring(rng, kind)
    style = pick_style(rng)
    c1 = rcontract(rng, i1, o1, style)
    c2 = rcontract(rng, i2, o2, style)
    if kind == "feedback" and rng.random() < 0.8:
        # keep the fed-back inputs out of the assumptions (otherwise the composition must be rejected)
        c1["a"] = [t for t in c1["a"] if "f2" not in t["c"]]
        c2["a"] = [t for t in c2["a"] if "f1" not in t["c"]]
    dup_noise(rng, c1)
    dup_noise(rng, c2)
    common_in = [v for v in i1 if v in i2]
    if common_in and rng.random() < 0.5:
        # the same assumption on a shared input stated by both contracts (identical, or scaled)
        src, dst = (c1, c2) if rng.random() < 0.5 else (c2, c1)
        cand = [t for t in src["a"] if set(t["c"]) <= set(common_in)]
        t = rng.choice(cand) if cand else T({common_in[0]: 1.0}, const(rng, style, 3, 9))
        if not cand:
            src["a"].append(dict(c=dict(t["c"]), k=t["k"]))
        dst["a"].insert(rng.randint(0, len(dst["a"])), dict(c=dict(t["c"]), k=t["k"]) if rng.random() < 0.7
                        else scale(t, 2.0))
    outs = o1 + o2
    keep: List[str] = []
    r = rng.random()
    if r < 0.35:
        keep = rng.sample(outs, rng.randint(1, min(2, len(outs))))
    elif r < 0.4:
        keep = [rng.choice(i1 + i2)]  # usually a non-output: must be rejected
    if rng.random() < 0.4:
        c1, c2 = c2, c1  # the other call order takes the other assumption branch
    return {"wiring": kind, "style": style, "c1": c1, "c2": c2, "keep": keep, "simplify": rng.random() < 0.6,
            "order": rorder(rng)}


def _elim_parts(e: Dict[str, Any]):
    elim = list(e["elim"])
    with_e = [t for t in e["ctx"] if set(t["c"]) & set(elim)]
    without_e = [t for t in e["ctx"] if not (set(t["c"]) & set(elim))]
    return elim, with_e, without_e


def compose_from_elim(rng) -> Dict[str, Any]:
    """An elimination case (C04 families) dressed as a composition: the producer's outputs are the variables to
    eliminate and its contract is the context; the consumer assumes the terms.  Composing them must refine the
    consumer's assumptions in that context - or refuse."""
    e = elim_case(rng)
    elim, with_e, without_e = _elim_parts(e)
    in1 = sorted({v for t in e["ctx"] for v in t["c"] if v not in elim})
    c1 = {"in": in1, "out": elim, "a": [dict(c=dict(t["c"]), k=t["k"]) for t in without_e],
          "g": [dict(c=dict(t["c"]), k=t["k"]) for t in with_e]}
    in2 = sorted({v for t in e["terms"] for v in t["c"]})
    c2 = {"in": in2, "out": ["o9"], "a": [dict(c=dict(t["c"]), k=t["k"]) for t in e["terms"]],
          "g": [T({"o9": 1.0, **({in2[0]: -1.0} if in2 and rng.random() < 0.5 else {})}, 1.0)]}
    if rng.random() < 0.5:
        c1, c2 = c2, c1
    return {"wiring": "from_elim", "style": "elim:" + e["family"], "c1": c1, "c2": c2, "keep": [],
            "simplify": e["simplify"], "order": e["order"]}


def quotient_from_elim(rng) -> Dict[str, Any]:
    """An elimination case dressed as a quotient: the variables to eliminate are inputs shared by dividend and
    divisor (internal to the quotient), the dividend guarantees the terms, the divisor's contract is the context."""
    e = elim_case(rng)
    elim, with_e, without_e = _elim_parts(e)
    t_out = sorted({v for t in e["terms"] for v in t["c"] if v not in elim}) or ["o9"]
    d_out = sorted({v for t in e["ctx"] for v in t["c"] if v not in elim})
    ren = {v: (v + "_d") for v in d_out if v in t_out}  # keep the two output sets apart
    d_out = [ren.get(v, v) for v in d_out] or ["m9"]

    def rn(t):
        return {"c": {ren.get(v, v): c for v, c in t["c"].items()}, "k": t["k"]}

    a_terms = [rn(t) for t in e["ctx"] if set(t["c"]) <= set(elim)]
    g_terms = [rn(t) for t in e["ctx"] if not set(t["c"]) <= set(elim)]
    top_a = []
    if a_terms and rng.random() < 0.5:
        # the dividend states (some of) the divisor's assumptions itself: they serve the second refinement pass
        top_a = [dict(c=dict(t["c"]), k=t["k"]) for t in a_terms if rng.random() < 0.7]
        if rng.random() < 0.5:
            a_terms = [t for t in a_terms if rng.random() < 0.5]
    if rng.random() < 0.6:
        # the dividend's own bounds on the shared inputs: the context of the second refinement pass
        for v in elim:
            if rng.random() < 0.7:
                top_a.append(T({v: rng.choice([1.0, -1.0])}, float(rng.randint(-3, 6))))
    top = {"in": list(elim), "out": t_out, "a": top_a, "g": [dict(c=dict(t["c"]), k=t["k"]) for t in e["terms"]]}
    if not any(v in t["c"] for t in top["g"] for v in t_out):
        top["g"].append(T({t_out[0]: 1.0}, 5.0))
    divisor = {"in": list(elim), "out": d_out, "a": a_terms, "g": g_terms}
    addl: List[str] = []
    if len(elim) >= 2 and rng.random() < 0.35:
        addl = rng.sample(elim, rng.randint(1, len(elim) - 1))   # some shared inputs stay visible to the quotient
    return {"family": "from_elim:" + e["family"], "shape": "shared_inputs", "style": "elim", "top": top,
            "divisor": divisor, "partner": None, "additional_inputs": addl, "simplify": e["simplify"],
            "order": e["order"]}


def quotient_case(rng) -> Dict[str, Any]:
    """(dividend, divisor): dividend built as divisor || hidden partner, or unrelated."""
    style = pick_style(rng)
    if rng.random() < 0.1:
        # two inputs shared with the divisor, one of them hidden from the quotient; the dividend's assumptions reach
        # the hidden one from an input of its own, the divisor's assumptions tie the hidden one to the visible one
        sg = rng.choice([1.0, -1.0])
        k = [float(rng.randint(0, 9)) for _ in range(5)]
        top = {"in": ["s1", "s2", "j1"], "out": ["o1"],
               "a": [T({"j1": sg, "s2": -sg}, k[0]), T({"s2": sg}, k[1])], "g": [T({"o1": 1.0, "j1": -1.0}, k[2])]}
        if rng.random() < 0.3:
            top["a"].append(T({"s1": rng.choice([1.0, -1.0])}, k[3] + 3))
        divisor = {"in": ["s1", "s2"], "out": ["m1"], "a": [T({"s2": sg, "s1": -sg}, k[3])],
                   "g": [T({"m1": 1.0, "s1": -1.0}, k[4])]}
        addl = rng.choice([["s1"], ["s1"], ["s2"], []])
        return {"family": "shared_chain", "shape": "shared_inputs", "style": "int", "top": top, "divisor": divisor,
                "partner": None, "additional_inputs": addl, "simplify": rng.random() < 0.6, "order": rorder(rng)}
    fam = rng.choice(["hidden_partner", "hidden_partner", "unrelated", "top_assumes_more", "top_assumes_less"])
    # divisor C1: i1 -> m1 ; partner P: m1 -> o1 ; top: i1 -> o1
    shape = rng.choice(["first", "second", "parallel"])
    if shape == "first":        # divisor is the first stage, quotient must be the second
        d_in, d_out = ["i1"], ["m1"]
        p_in, p_out = ["m1"], ["o1"]
        t_in, t_out = ["i1"], ["o1"]
    elif shape == "second":     # divisor is the second stage
        d_in, d_out = ["m1"], ["o1"]
        p_in, p_out = ["i1"], ["m1"]
        t_in, t_out = ["i1"], ["o1"]
    else:                       # divisor handles one of two independent channels
        d_in, d_out = ["i1"], ["o1"]
        p_in, p_out = ["i2"], ["o2"]
        t_in, t_out = ["i1", "i2"], ["o1", "o2"]
    divisor = rcontract(rng, d_in, d_out, style, bounded=True, gain=rng.random() < 0.7)
    partner = rcontract(rng, p_in, p_out, style, bounded=rng.random() < 0.7, gain=rng.random() < 0.7)
    top = rcontract(rng, t_in, t_out, style, bounded=True, gain=rng.random() < 0.6)
    if fam == "top_assumes_more":
        top["a"] = [dict(t) for t in divisor["a"] if set(t["c"]) <= set(t_in)] + top["a"]
    elif fam == "top_assumes_less":
        top["a"] = top["a"][: rng.randint(0, 1)]
    allowed = [v for v in d_out + t_in]
    addl: List[str] = []
    r = rng.random()
    if r < 0.3 and allowed:
        addl = rng.sample(allowed, rng.randint(1, min(2, len(allowed))))
    elif r < 0.35:
        addl = ["zz"]
    return {"family": fam, "shape": shape, "style": style, "top": top, "divisor": divisor, "partner": partner,
            "additional_inputs": addl, "simplify": rng.random() < 0.6, "order": rorder(rng)}


# --------------------------------------------------------------------------------------
# merge pairs (C08) and overlapping guarantees (C15)


def merge_case(rng) -> Dict[str, Any]:
    style = pick_style(rng)
    fam = rng.choice(["shared_in", "shared_out", "disjoint", "same_iface", "shared_both", "clash"])
    if fam == "shared_in":
        i1, o1, i2, o2 = ["s1", "i1"], ["o1"], ["s1", "j1"], ["p1"]
    elif fam == "shared_out":
        i1, o1, i2, o2 = ["i1"], ["o1", "q1"], ["j1"], ["o1"]
    elif fam == "disjoint":
        i1, o1, i2, o2 = ["i1"], ["o1"], ["j1"], ["p1"]
    elif fam == "same_iface":
        i1, o1, i2, o2 = ["i1", "i2"], ["o1"], ["i1", "i2"], ["o1"]
    elif fam == "shared_both":
        i1, o1, i2, o2 = ["s1"], ["o1", "o2"], ["s1", "j1"], ["o1"]
    else:  # an input of one is an output of the other: the union is not a valid interface
        i1, o1, i2, o2 = ["i1"], ["m1"], ["m1"], ["p1"]
    c1 = rcontract(rng, i1, o1, style)
    c2 = rcontract(rng, i2, o2, style)
    r = rng.random()
    if r < 0.3:
        # duplicated / redundant terms across the two operands
        for key in ("a", "g"):
            common = [t for t in c1[key] if set(t["c"]) <= set(c2["in"] + (c2["out"] if key == "g" else []))]
            if common:
                t = rng.choice(common)
                c2[key].append(rng.choice([dict(c=dict(t["c"]), k=t["k"]), scale(t, 2.0), weaken(rng, t, style)]))
    elif r < 0.45:
        # what one operand assumes about the inputs, the other one guarantees in the very same words (a guarantee may
        # speak about inputs only): merging still has to assume it
        src, dst = (c1, c2) if rng.random() < 0.5 else (c2, c1)
        cand = [t for t in src["a"] if set(t["c"]) <= set(dst["in"])]
        if not cand:
            shared = [v for v in src["in"] if v in dst["in"]]
            if shared:
                t = T({shared[0]: rng.choice([1.0, -1.0])}, const(rng, style, 3, 9))
                src["a"].append(t)
                cand = [t]
        if cand:
            t = rng.choice(cand)
            dst["g"].insert(rng.randint(0, len(dst["g"])), dict(c=dict(t["c"]), k=t["k"]))
    dup_noise(rng, c1)
    dup_noise(rng, c2)
    return {"family": fam, "style": style, "c1": c1, "c2": c2}


def overlap_compose_case(rng) -> Dict[str, Any]:
    """Composable pair whose guarantees overlap on an interface-level variable."""
    kind = rng.choice(["shared_in", "cascade_keep", "mixed", "shared_in", "indep_input_term"])
    style = rng.choice(["int", "int", "dyadic"])
    keep: List[str] = []
    if kind == "shared_in":
        _, i1, o1, i2, o2 = wiring(rng, "shared_in")
        common = ["s1"]
    elif kind == "mixed":
        _, i1, o1, i2, o2 = wiring(rng, "mixed")
        common = ["s1"]
    elif kind == "cascade_keep":
        i1, o1, i2, o2 = ["i1"], ["m1"], ["m1"], ["p1"]
        keep = ["m1"]
        common = ["m1"]
    else:
        i1, o1, i2, o2 = ["s1", "i1"], ["o1"], ["s1"], ["p1"]
        common = ["s1"]
    c1 = rcontract(rng, i1, o1, style)
    c2 = rcontract(rng, i2, o2, style)
    v = common[0]
    base = T({v: coef(rng, style)}, const(rng, style, 0, 6))
    if rng.random() < 0.3 and kind != "cascade_keep":
        # an interface-level term over the shared variable and one more input of the first contract
        base = T({v: coef(rng, style)}, const(rng, style, 0, 6))
    variant = rng.choice(["identical", "scaled", "weaker", "stronger", "identical"])
    t1 = dict(c=dict(base["c"]), k=base["k"])
    if variant == "identical":
        t2 = dict(c=dict(base["c"]), k=base["k"])
    elif variant == "scaled":
        t2 = scale(base, float(rng.choice([2, 3, 0.5])))
    elif variant == "weaker":
        t2 = dict(c=dict(base["c"]), k=base["k"] + 1.0)
    else:
        t2 = dict(c=dict(base["c"]), k=base["k"] - 1.0)
    c1["g"].insert(rng.randint(0, len(c1["g"])), t1)
    c2["g"].insert(rng.randint(0, len(c2["g"])), t2)
    return {"wiring": "overlap:" + kind, "variant": variant, "style": style, "c1": c1, "c2": c2, "keep": keep,
            "simplify": rng.random() < 0.6, "order": rorder(rng)}
