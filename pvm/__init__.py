"""pvm - pacti verification monitors (runtime monitoring of the real pacti code)."""
