"""Exact-arithmetic oracle (z3, QF_LRA) and the neutral representation of terms/lists/contracts.

Neutral representation (JSON-able, independent of pacti's classes so that a broken ``copy``/``__eq__``
in the code under test cannot corrupt what the monitors recorded):

    term      {"c": {"x": 2.0, "y": -1.0}, "k": 3.0}          meaning 2x - y <= 3
    list      [term, ...]                                        conjunction
    contract  {"in": ["x"], "out": ["y"], "a": list, "g": list}

Numerical reading fixed by the properties (implemented once, here):
  * every float is the exact rational it denotes;
  * a conclusion term  a.x <= c  counts as violated only at a point with |x_i| <= 1000 and
    a.x > c + 1e-4 * (1 + |c|);
  * hypotheses that appear negatively (a component's own assumptions) are granted 1e-7 slack.
"""
from __future__ import annotations

import json
import math
from fractions import Fraction
from typing import Any, Dict, Iterable, List, Optional, Tuple

import z3

TOL = 1e-4
SLACK = 1e-7
BOX = 1000
TIMEOUT_MS = 10000

Term = Dict[str, Any]
TList = List[Term]

# --------------------------------------------------------------------------------------
# neutral representation


def vname(v: Any) -> str:
    n = getattr(v, "_name", None)
    if n is None:
        n = getattr(v, "name", None)
    if n is None:
        n = str(v)
    return str(n)


def snap_term(t: Any) -> Term:
    return {"c": {vname(v): float(c) for v, c in t.variables.items()}, "k": float(t.constant)}


def snap_list(tl: Any) -> TList:
    return [snap_term(t) for t in tl.terms]


def snap_contract(c: Any) -> Dict[str, Any]:
    return {
        "in": [vname(v) for v in c.inputvars],
        "out": [vname(v) for v in c.outputvars],
        "a": snap_list(c.a),
        "g": snap_list(c.g),
    }


def canon(obj: Any) -> str:
    """Canonical string of a neutral object (floats by hex, so -0.0 and 0.0 differ)."""

    def enc(o: Any) -> Any:
        if isinstance(o, float):
            return o.hex() if math.isfinite(o) else repr(o)
        if isinstance(o, dict):
            return {k: enc(o[k]) for k in sorted(o)}
        if isinstance(o, (list, tuple)):
            return [enc(x) for x in o]
        return o

    return json.dumps(enc(obj), sort_keys=True, separators=(",", ":"))


def digest(obj: Any) -> str:
    import hashlib

    return hashlib.sha1(canon(obj).encode()).hexdigest()[:16]


def term_vars(t: Term) -> List[str]:
    return [v for v, c in t["c"].items() if c != 0]


def list_vars(tl: Iterable[Term]) -> List[str]:
    out: List[str] = []
    for t in tl:
        for v in t["c"]:
            if v not in out:
                out.append(v)
    return out


def fmt_term(t: Term) -> str:
    parts = []
    for v in sorted(t["c"]):
        parts.append("%g*%s" % (t["c"][v], v))
    return (" + ".join(parts) if parts else "0") + " <= %g" % t["k"]


def fmt_list(tl: TList) -> str:
    return "[" + "; ".join(fmt_term(t) for t in tl) + "]"


# --------------------------------------------------------------------------------------
# z3 encoding

_vars: Dict[str, Any] = {}
_qcache: Dict[float, Any] = {}

STATS = {"queries": 0, "unknown": 0}


def zv(name: str) -> Any:
    v = _vars.get(name)
    if v is None:
        v = z3.Real("v_" + name)
        _vars[name] = v
    return v


def q(x: Any) -> Any:
    if isinstance(x, Fraction):
        return z3.RatVal(x.numerator, x.denominator)
    x = float(x)
    r = _qcache.get(x)
    if r is None:
        if not math.isfinite(x):
            raise ValueError("non-finite number in constraint: %r" % x)
        fr = Fraction(x)
        r = z3.RatVal(fr.numerator, fr.denominator)
        if len(_qcache) < 100000:
            _qcache[x] = r
    return r


def lin(t: Term) -> Any:
    items = [(v, c) for v, c in t["c"].items() if c != 0]
    if not items:
        return z3.RealVal(0)
    return z3.Sum([q(c) * zv(v) for v, c in items])


def holds(t: Term, slack: float = 0.0) -> Any:
    if slack:
        return lin(t) <= q(Fraction(t["k"]) + Fraction(slack))
    return lin(t) <= q(t["k"])


def tol_of(k: float) -> Fraction:
    return Fraction(TOL) * (1 + abs(Fraction(k)))


def viol(t: Term) -> Any:
    """The term is violated beyond the tolerance."""
    return lin(t) > q(Fraction(t["k"]) + tol_of(t["k"]))


def strict_viol(t: Term) -> Any:
    return lin(t) > q(t["k"])


def conj(tl: Iterable[Term], slack: float = 0.0) -> Any:
    fs = [holds(t, slack) for t in tl]
    return z3.And(fs) if fs else z3.BoolVal(True)


def anyviol(tl: Iterable[Term]) -> Any:
    fs = [viol(t) for t in tl]
    return z3.Or(fs) if fs else z3.BoolVal(False)


def anystrict(tl: Iterable[Term]) -> Any:
    fs = [strict_viol(t) for t in tl]
    return z3.Or(fs) if fs else z3.BoolVal(False)


def box(names: Iterable[str], b: int = BOX) -> Any:
    fs = []
    for n in names:
        fs.append(zv(n) >= -b)
        fs.append(zv(n) <= b)
    return z3.And(fs) if fs else z3.BoolVal(True)


def honours(c: Dict[str, Any]) -> Any:
    """A component honours its contract: (A with 1e-7 slack) => G."""
    return z3.Implies(conj(c["a"], SLACK), conj(c["g"]))


def names_of(*objs: Any) -> List[str]:
    out: List[str] = []

    def add(n: str) -> None:
        if n not in out:
            out.append(n)

    for o in objs:
        if isinstance(o, dict) and "in" in o:
            for n in o["in"] + o["out"]:
                add(n)
            for t in o["a"] + o["g"]:
                for n in t["c"]:
                    add(n)
        elif isinstance(o, dict) and "c" in o:
            for n in o["c"]:
                add(n)
        elif isinstance(o, (list, tuple)):
            for n in names_of(*o):
                add(n)
        elif isinstance(o, str):
            add(o)
    return out


def _val(m: Any, d: Any) -> str:
    v = m[d]
    try:
        if z3.is_int_value(v):
            return str(v.as_long())
        return str(Fraction(v.numerator_as_long(), v.denominator_as_long()))
    except Exception:  # noqa: BLE001
        return str(v)


def check(*fs: Any, timeout_ms: int = TIMEOUT_MS) -> Tuple[str, Optional[Dict[str, str]]]:
    """Return ('sat', witness) | ('unsat', None) | ('unknown', None)."""
    s = z3.Solver()
    s.set("timeout", timeout_ms)
    for f in fs:
        s.add(f)
    STATS["queries"] += 1
    r = s.check()
    if r == z3.sat:
        m = s.model()
        w = {}
        for d in m.decls():
            n = d.name()
            w[n[2:] if n.startswith("v_") else n] = _val(m, d)
        return "sat", w
    if r == z3.unsat:
        return "unsat", None
    STATS["unknown"] += 1
    return "unknown", None


def witness_point(w: Optional[Dict[str, str]], names: Iterable[str]) -> Dict[str, Fraction]:
    out = {}
    for n in names:
        out[n] = Fraction(w[n]) if w and n in w else Fraction(0)
    return out


# --------------------------------------------------------------------------------------
# derived judgements


def implies_tol(hyp: Iterable[Any], concl: TList, names: Iterable[str]) -> Tuple[str, Optional[Dict[str, str]]]:
    """Does (box and hyp) imply every term of concl within tolerance?  'unsat' = yes.

    Returns ('sat', witness) when some point in the box satisfies hyp and violates a conclusion term
    beyond tolerance.
    """
    if not concl:
        return "unsat", None
    return check(box(names), *hyp, anyviol(concl))


def implies_exact(hyp: Iterable[Any], concl: TList) -> Tuple[str, Optional[Dict[str, str]]]:
    """Exact implication over Q (no box, no tolerance). 'unsat' = the implication holds."""
    if not concl:
        return "unsat", None
    return check(*hyp, anystrict(concl))


def feasible(tl: TList) -> str:
    """'sat' | 'unsat' | 'unknown' for exact feasibility over Q."""
    return check(conj(tl))[0]


def classify_containment(left: TList, right: TList, extra: Iterable[Any] = ()) -> str:
    """must-True / must-False / band classification of  left (and extra) subset-of right.

    'T'    : containment holds exactly over Q
    'F'    : some point inside the box satisfies left and violates a right term beyond tolerance
    'band' : neither (judged by nobody)
    'unknown' on solver timeout
    """
    extra = list(extra)
    r, _ = implies_exact([conj(left)] + extra, right)
    if r == "unknown":
        return "unknown"
    if r == "unsat":
        return "T"
    r2, _ = implies_tol([conj(left)] + extra, right, names_of(left, right))
    if r2 == "unknown":
        return "unknown"
    return "F" if r2 == "sat" else "band"


def eval_term(t: Term, point: Dict[str, Fraction]) -> Fraction:
    """a.x - c  at the point (exact)."""
    s = Fraction(0)
    for v, c in t["c"].items():
        s += Fraction(c) * Fraction(point[v])
    return s - Fraction(t["k"])


def lp_opt(tl: TList, objective: Dict[str, float], maximize: bool) -> Tuple[str, Optional[Fraction]]:
    """Exact LP over Q: ('infeasible'|'unbounded'|'opt'|'unknown', value)."""
    if feasible(tl) == "unsat":
        return "infeasible", None
    o = z3.Optimize()
    o.set("timeout", TIMEOUT_MS)
    for t in tl:
        o.add(holds(t))
    obj = z3.Sum([q(c) * zv(v) for v, c in objective.items()]) if objective else z3.RealVal(0)
    h = o.maximize(obj) if maximize else o.minimize(obj)
    STATS["queries"] += 1
    r = o.check()
    if r != z3.sat:
        STATS["unknown"] += 1
        return "unknown", None
    val = o.upper(h) if maximize else o.lower(h)
    s = str(val)
    if "oo" in s:
        return "unbounded", None
    try:
        if z3.is_int_value(val):
            return "opt", Fraction(val.as_long())
        if z3.is_rational_value(val):
            return "opt", Fraction(val.numerator_as_long(), val.denominator_as_long())
        return "opt", Fraction(s)
    except Exception:  # noqa: BLE001  (epsilon terms etc.)
        STATS["unknown"] += 1
        return "unknown", None
