"""Environment binding: which pacti is executed, where third-party deps live, seeds.

Every check imports this module first.  It puts ``<src>`` (default ``/repo/src``; override with
``PACTI_VERIF_SRC`` for the mutant self-test) first on ``sys.path`` and refuses to run when the
imported ``pacti`` is not the one under ``<src>`` (the /venv also contains an unrelated installed
pacti 0.3.1).
"""
from __future__ import annotations

import os
import subprocess
import sys

VERIF = os.path.dirname(os.path.dirname(os.path.abspath(__file__)))
SRC = os.path.abspath(os.environ.get("PACTI_VERIF_SRC", "/repo/src"))
REPO = os.path.dirname(SRC)
DEPS = os.path.join(VERIF, ".deps")
GUARD = "PACTI_VERIF"

EXIT_HELD = 0
EXIT_VIOLATION = 1
EXIT_INCONCLUSIVE = 2


class ForeignPacti(RuntimeError):
    pass


def ensure_deps() -> None:
    """Make icontract importable (installs it offline into .deps when missing)."""
    if DEPS not in sys.path:
        sys.path.insert(1, DEPS)
    try:
        import icontract  # noqa: F401
    except ImportError:
        subprocess.run(
            [sys.executable, "-m", "pip", "install", "--quiet", "--no-index", "--find-links",
             "/opt/veriftools/wheels", "--target", DEPS, "icontract"],
            check=False, stdout=subprocess.DEVNULL, stderr=subprocess.DEVNULL,
        )
        import importlib
        importlib.invalidate_caches()


def bind():
    """Import the pacti under <src>; return the package. Raises ForeignPacti otherwise."""
    os.environ.setdefault("MPLBACKEND", "Agg")
    os.environ[GUARD] = "1"
    if SRC in sys.path:
        sys.path.remove(SRC)
    sys.path.insert(0, SRC)
    if DEPS not in sys.path:
        sys.path.insert(1, DEPS)
    import pacti

    f = os.path.abspath(pacti.__file__)
    if not f.startswith(SRC + os.sep):
        raise ForeignPacti("pacti imported from %s, expected under %s" % (f, SRC))
    return pacti


def seed_from_env(default: int = 0) -> int:
    try:
        return int(os.environ.get("VERIF_SEED", default))
    except ValueError:
        return default
