"""Static metadata of every check (read by pvm.check without importing pacti)."""

NUM = ("floats read as exact rationals; conclusion violated only inside |v|<=1000 by more than 1e-4*(1+|c|); "
       "negative hypotheses get 1e-7 slack (the properties' numerical reading)")
TB = "trusted base: CPython, z3 QF_LRA, fractions, pvm/exact.py"

META = {
    "C04": {
        "level": "exploration",
        "rule": ("cases = (term list, context, eliminated vars, mode, simplify, tactics_order); the complete "
                 "two-variable grid (24 terms x 137 contexts x 6 orders x 2 modes; quick: a 1/4 stride) plus a sampled "
                 "three-variable grid plus random families (random, boxed, wrong-direction, chain, degenerate, "
                 "Kaykobad-shaped). Non-trivial = the call reached the tactic dispatcher at least once (some term "
                 "mentioned an eliminated variable); distinct = distinct case digests."),
        "required": ["events:transform_term", "events:PTL.elim_vars_by_refining", "events:PTL.elim_vars_by_relaxing",
                     "reach:tactic1:accepted:refine", "reach:tactic1:accepted:relax",
                     "reach:tactic2:accepted:refine", "reach:tactic2:accepted:relax",
                     "reach:tactic3:accepted:refine", "reach:tactic3:accepted:relax",
                     "reach:tactic4:accepted:refine",
                     "reach:tactic5:accepted:refine", "reach:tactic5:accepted:relax",
                     "reach:dispatcher-declined:refine", "reach:dispatcher-declined:relax"],
        "assumptions": [NUM, TB, "L1 verdict point is the return of the tactic dispatcher (_transform_term)"],
        "exhaustive": False,
        "exhaustive_note": "thorough tier enumerates the two-variable grid completely (counter grid2_cases)",
        "soft_s": {"quick": 200, "thorough": 3000},
    },
    "C03": {
        "level": "exploration",
        "rule": ("cases = pairs of constraint lists (families: unrelated, weakenings, Farkas combinations, boundary, "
                 "separated, reflexive, sub-list, unbounded, empty left/right, near-boundary), pairs of contracts over a "
                 "common or a different interface, and environment/implementation membership queries; every "
                 "PolyhedralTermList.refines event (direct or nested) is classified by exact containment into "
                 "must-True / must-False / band and the answer compared; must-True is asserted on small-integer / "
                 "dyadic data only. Non-trivial = a refinement test was actually evaluated; distinct = case digests."),
        "required": ["events:PTL.refines", "events:IoContract.refines", "events:contains_env", "events:contains_impl",
                     "list:T:Lfeasible", "list:F:Lfeasible", "list:T:Lempty", "contract:different-interfaces",
                     "contract:weaker:T", "contract:under_assumptions:T", "contract:unrelated:F", "env:T", "env:F",
                     "impl:T", "impl:F"],
        "assumptions": [NUM, TB, "thinly infeasible left sides (infeasible, but feasible after relaxing by 1e-3) are "
                        "treated as band"],
        "soft_s": {"quick": 200, "thorough": 3000},
    },
    "C01": {
        "level": "exploration",
        "rule": ("cases = (contract pair, vars_to_keep, simplify, tactics_order): the repository's stored compositions "
                 "in both call orders under 8 tactic orders and both simplify flags, seeded perturbations of them, "
                 "and generated pairs over 7 wirings (independent, cascade both orders, shared inputs, feedback, "
                 "mixed, fan) with gain-type and random sparse contents, redundant terms, kept variables. The oracle "
                 "decides A_C & hon(C1) & hon(C2) & (viol A_1 | viol A_2 | viol G_C) UNSAT on every returned result. "
                 "Non-trivial = compose returned a contract; distinct = case digests."),
        "required": ["reach:returned:wiring:indep", "reach:returned:wiring:cascade", "reach:returned:wiring:cascade_rev",
                     "reach:returned:wiring:shared_in", "reach:returned:wiring:feedback", "reach:returned:wiring:mixed",
                     "reach:returned:wiring:corpus",
                     "reach:returned:branch:self-helps-other", "reach:returned:branch:other-helps-self",
                     "reach:returned:branch:neither", "reach:returned:branch:cycle",
                     "reach:returned:simplify=True", "reach:returned:simplify=False",
                     "reach:returned:keep=True", "reach:returned:keep=False",
                     "reach:returned:tactic1", "reach:returned:tactic2", "reach:returned:tactic3",
                     "reach:rejected:feedback", "reach:rejected:keep", "reach:rejected:eliminate"],
        "assumptions": [NUM, TB, "operands are constructed with the default simplification and snapshotted after "
                        "construction; all variables are free in the oracle query"],
        "soft_s": {"quick": 200, "thorough": 3000},
    },
}
