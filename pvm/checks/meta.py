"""Static metadata of every check (read by pvm.check and mk_manifest.py without importing pacti)."""

NUM = ("floats read as exact rationals; conclusion violated only inside |v|<=1000 by more than 1e-4*(1+|c|); "
       "negative hypotheses get 1e-7 slack (the properties' numerical reading)")
TB = "trusted base: CPython, z3 QF_LRA, fractions, pvm/exact.py"

META = {}
MANIFEST_TEXT = {}
NOT_APPLICABLE = {}

META['C01'] = {'level': 'exploration',
 'rule': "cases = (contract pair, vars_to_keep, simplify, tactics_order): the repository's stored compositions in "
         'both call orders under 8 tactic orders and both simplify flags, seeded perturbations of them, and '
         'generated pairs over 7 wirings (independent, cascade both orders, shared inputs, feedback, mixed, fan) '
         'with gain-type and random sparse contents, redundant terms, kept variables. The oracle decides A_C & '
         'hon(C1) & hon(C2) & (viol A_1 | viol A_2 | viol G_C) UNSAT on every returned result. Non-trivial = compose '
         'returned a contract; distinct = case digests.',
 'required': ['reach:returned:wiring:indep', 'reach:returned:wiring:from_elim',
              'reach:returned:wiring:cascade',
              'reach:returned:wiring:cascade_rev',
              'reach:returned:wiring:shared_in',
              'reach:returned:wiring:feedback',
              'reach:returned:wiring:mixed',
              'reach:returned:wiring:corpus',
              'reach:returned:branch:self-helps-other',
              'reach:returned:branch:other-helps-self',
              'reach:returned:branch:neither',
              'reach:returned:branch:cycle',
              'reach:returned:simplify=True',
              'reach:returned:simplify=False',
              'reach:returned:keep=True',
              'reach:returned:keep=False',
              'reach:returned:tactic1',
              'reach:returned:tactic2',
              'reach:returned:tactic3',
              'reach:rejected:feedback',
              'reach:rejected:keep',
              'reach:rejected:eliminate'],
 'assumptions': ['floats read as exact rationals; conclusion violated only inside |v|<=1000 by more than '
                 "1e-4*(1+|c|); negative hypotheses get 1e-7 slack (the properties' numerical reading)",
                 'trusted base: CPython, z3 QF_LRA, fractions, pvm/exact.py',
                 'operands are constructed with the default simplification and snapshotted after construction; all '
                 'variables are free in the oracle query'],
 'soft_s': {'quick': 900, 'thorough': 3000}}

META['C02'] = {'level': 'exploration',
 'rule': "cases = (dividend, divisor, additional_inputs, simplify, tactics_order): the repository's stored quotients "
         'under 7 tactic orders and both simplify flags, seeded perturbations of them, and generated pairs in three '
         'shapes (divisor first stage / second stage / parallel channel) with dividends built by composing the '
         'divisor with a hidden partner, unrelated dividends, dividends assuming more / less than the divisor. The '
         'oracle decides A_C & hon(C1) & hon(Q) & (viol A_1 | viol A_Q | viol G_C) UNSAT on every returned quotient. '
         'Non-trivial = quotient returned a contract; distinct = case digests.',
 'required': ['reach:assumptions-refine-divisor=True', 'reach:returned:family:shared_chain',
              'reach:assumptions-refine-divisor=False',
              'reach:returned:family:hidden_partner',
              'reach:returned:family:unrelated',
              'reach:returned:family:corpus',
              'reach:returned:simplify=True',
              'reach:returned:simplify=False',
              'reach:returned:additional_inputs=True',
              'reach:rejected:eliminate',
              'reach:rejected:additional-inputs',
              'reach:returned:tactic1',
              'reach:returned:tactic2'],
 'assumptions': ['floats read as exact rationals; conclusion violated only inside |v|<=1000 by more than '
                 "1e-4*(1+|c|); negative hypotheses get 1e-7 slack (the properties' numerical reading)",
                 'trusted base: CPython, z3 QF_LRA, fractions, pvm/exact.py',
                 'operands snapshotted after construction with default simplification'],
 'soft_s': {'quick': 900, 'thorough': 3000}}

META['C03'] = {'level': 'exploration',
 'rule': 'cases = pairs of constraint lists (families: unrelated, weakenings, Farkas combinations, boundary, '
         'separated, reflexive, sub-list, unbounded, empty left/right, near-boundary), pairs of contracts over a '
         'common or a different interface, and environment/implementation membership queries; every '
         'PolyhedralTermList.refines event (direct or nested) is classified by exact containment into must-True / '
         'must-False / band and the answer compared; must-True is asserted on small-integer / dyadic data only. '
         'Non-trivial = a refinement test was actually evaluated; distinct = case digests.',
 'required': ['events:PTL.refines',
              'events:IoContract.refines',
              'events:contains_env',
              'events:contains_impl',
              'list:T:Lfeasible',
              'list:F:Lfeasible',
              'list:T:Lempty',
              'contract:different-interfaces',
              'contract:weaker:T',
              'contract:under_assumptions:T',
              'contract:unrelated:F',
              'env:T',
              'env:F',
              'impl:T',
              'impl:F'],
 'assumptions': ['floats read as exact rationals; conclusion violated only inside |v|<=1000 by more than '
                 "1e-4*(1+|c|); negative hypotheses get 1e-7 slack (the properties' numerical reading)",
                 'trusted base: CPython, z3 QF_LRA, fractions, pvm/exact.py',
                 'thinly infeasible left sides (infeasible, but feasible after relaxing by 1e-3) are treated as '
                 'band'],
 'soft_s': {'quick': 900, 'thorough': 3000}}

META['C04'] = {'level': 'exploration',
 'rule': 'cases = (term list, context, eliminated vars, mode, simplify, tactics_order); the complete two-variable '
         'grid (24 terms x 137 contexts x 6 orders x 2 modes; quick: a 1/4 stride) plus a sampled three-variable '
         'grid plus random families (random, boxed, wrong-direction, chain, degenerate, Kaykobad-shaped). '
         'Non-trivial = the call reached the tactic dispatcher at least once (some term mentioned an eliminated '
         'variable); distinct = distinct case digests.',
 'required': ['events:transform_term',
              'events:PTL.elim_vars_by_refining',
              'events:PTL.elim_vars_by_relaxing',
              'reach:tactic1:accepted:refine',
              'reach:tactic1:accepted:relax',
              'reach:tactic2:accepted:refine',
              'reach:tactic2:accepted:relax',
              'reach:tactic3:accepted:refine',
              'reach:tactic3:accepted:relax',
              'reach:tactic4:accepted:refine',
              'reach:tactic5:accepted:refine',
              'reach:tactic5:accepted:relax',
              'reach:dispatcher-declined:refine',
              'reach:dispatcher-declined:relax'],
 'assumptions': ['floats read as exact rationals; conclusion violated only inside |v|<=1000 by more than '
                 "1e-4*(1+|c|); negative hypotheses get 1e-7 slack (the properties' numerical reading)",
                 'trusted base: CPython, z3 QF_LRA, fractions, pvm/exact.py',
                 'L1 verdict point is the return of the tactic dispatcher (_transform_term)'],
 'exhaustive': False,
 'exhaustive_note': 'thorough tier enumerates the two-variable grid completely (counter grid2_cases)',
 'soft_s': {'quick': 900, 'thorough': 3000}}

RM = "runtime monitoring: "
MANIFEST_TEXT["C01"] = {
    "technique": RM + "recording wrappers on compose_tactics / elimination / tactic dispatcher, exact z3 oracle on every returned composition",
    "text": ("Exploration: every composition returned by the real code under generated, corpus and perturbed workloads "
             "is judged by an exact rational oracle for the C01 obligation; held = no counterexample point on the "
             "K executions reported in evidence, with every wiring / branch / flag / tactic reach counter non-zero."),
    "note": "Trusted: CPython, z3 (QF_LRA), pvm/exact.py, the properties' numerical reading; not a proof - says nothing about inputs not generated.",
}
MANIFEST_TEXT["C02"] = {
    "technique": RM + "recording wrappers on quotient_tactics and nested primitives, exact z3 oracle on every returned quotient",
    "text": ("Exploration: every quotient returned by the real code is judged for 'divisor || quotient refines dividend' "
             "by an exact oracle; both assumption branches, both ValueError fall-backs and the rejection paths are "
             "reach counters."),
    "note": "Trusted: CPython, z3, pvm/exact.py; dividends are built by the real compose for the hidden-partner family.",
}
MANIFEST_TEXT["C03"] = {
    "technique": RM + "wrappers on refines / contains_* and the linprog boundary; must-True / must-False / band classification by exact containment",
    "text": ("Exploration: every refinement answer (direct or nested) is compared with the exact containment class of "
             "its operands; band cases are counted and skipped; interface mismatches must raise IncompatibleArgsError."),
    "note": "Trusted: CPython, z3, pvm/exact.py; must-True asserted on small-integer/dyadic data only; thinly infeasible left sides are band.",
}
MANIFEST_TEXT["C04"] = {
    "technique": RM + "wrappers on elim_vars_by_*, the tactic dispatcher and every TACTICS entry; exact implication oracle per list and per term; complete two-variable grid",
    "text": ("Exploration with a bounded-exhaustive core: the two-variable grid (39k executions; 1/4 in the quick tier) "
             "plus random families; every accepted tactic result and every list-level result is checked for "
             "implication in its actual context by z3; each tactic must be accepted at least once per supported mode."),
    "note": "Trusted: CPython, z3, pvm/exact.py. L1 verdict point is the dispatcher's return (a tactic result it discards is a decline).",
}

META["C19"] = {
    "level": "exploration",
    "rule": ("cases = a base Var / term / term list / contract / compound contract (small-integer or dyadic data, zero "
             "constants planted) and every single-field edit of it (identical, variable order, one coefficient, one "
             "constant, signed zero, term added/removed/reordered, inputs/outputs permuted/extended/changed), plus "
             "copy, machine round trip and equal-by-construction triples. For each pair: == both ways, required "
             "answer where the edit fixes it, hash agreement whenever ==. Non-trivial = every case; distinct = case "
             "digests."),
    "required": ["pairs:IoContract:outputs-extra", "pairs:IoContract:inputs-extra", "pairs:IoContract:copy",
                 "pairs:IoContract:last-input-becomes-first-output", "pairs:IoContract:first-output-becomes-last-input",
                 "pairs:IoContract:guarantee-constant", "pairs:IoContract:guarantee-signed-zero-constant",
                 "pairs:PolyhedralTerm:signed-zero-constant", "pairs:PolyhedralTerm:copy",
                 "pairs:PolyhedralTermList:copy", "pairs:PolyhedralTermList:signed-zero-constant",
                 "pairs:IoContractCompound:outputs-extra", "pairs:Var:name", "triples", "hash-agree:IoContract"],
    "assumptions": [TB, "permuted interface lists and permuted term order may compare either way (the property only "
                    "fixes genuine differences and identical copies) but must stay symmetric and hash-coherent"],
    "soft_s": {"quick": 900, "thorough": 2000},
}
MANIFEST_TEXT["C19"] = {
    "technique": RM + "reference structural equality over single-field edits; ==, hash and copy of the real classes observed on every pair",
    "text": ("Exploration: for every generated base object and each single-field edit the real ==, hash() and copy() "
             "are executed and compared with the answer the property fixes (must-equal / must-differ / free), "
             "symmetry, transitivity on triples and hash agreement."),
    "note": "Trusted: CPython and the edit generator (each edit changes exactly the named field).",
}

META["C09"] = {
    "level": "exploration",
    "rule": ("cases = expression trees over the documented grammar (signs, coefficient with/without '*', parenthesised "
             "sums with optional factor, constant arithmetic, absolute values with optional factor, parenthesised "
             "groups of absolute values, repeated variables and repeated absolute terms, chained <=/>=, =/==), "
             "rendered with four spacing styles and several spellings per number (dyadic values only, so float "
             "arithmetic is exact); all small shapes (<=2 items on the left, 1 item on the right in the quick tier, "
             "<=2 in the thorough tier, atoms x y 2x 2y |x| |y| 2|x| 2|y| 1) are enumerated; 25% of the strings are "
             "also mutated at token level. Accepted => z3 decides parsed conjunction <=> written relation for all "
             "reals. Non-trivial = the string was accepted; distinct = case digests."),
    "required": ["outcome:tree:accepted", "outcome:tree:PolyhedralSyntaxConvexException",
                 "outcome:mutated:PolyhedralSyntaxException", "outcome:mutated:accepted",
                 "accepted-feature:abs", "accepted-feature:pabs", "accepted-feature:par", "accepted-feature:chain",
                 "accepted-feature:const-arith", "accepted-feature:star", "accepted-feature:op=",
                 "accepted-feature:op==", "accepted-feature:op>=", "accepted-feature:repeated-abs-term",
                 "accepted-feature:repeated-variable", "small_shape_cases", "history-reparse"],
    "assumptions": [TB, "the written relation is evaluated by pvm's own tree evaluator (If-encoded absolute values, "
                    "exact rationals); a convex relation that the grammar rejects is not a violation"],
    "soft_s": {"quick": 900, "thorough": 3000},
}
MANIFEST_TEXT["C09"] = {
    "technique": RM + "grammar-directed string generation, real parser executed, exact z3 equivalence of parsed inequalities and the written relation over all reals",
    "text": ("Exploration with an enumerated core: every accepted string's parsed inequalities are proved equivalent "
             "(z3, all real points) to the relation the generator wrote; rejected strings must raise the two "
             "syntax errors; re-parsing (immediately and at the end of the session) must give identical results."),
    "note": "Trusted: CPython, z3, the 60-line tree evaluator in pvm/checks/c09.py; numbers restricted to dyadic rationals.",
}

META["C12"] = {
    "level": "exploration",
    "rule": ("cases = (contract over <=5 variables, objective with <=3 small-integer coefficients written as a string "
             "in several spellings, direction) and get_variable_bounds queries; satisfiable, unsatisfiable (built "
             "without simplification) and half-bounded contracts, objectives over unconstrained variables, plus a "
             "fixed core of strips on which the LP solver's presolve misreports. Truth = exact rational LP (z3 "
             "Optimize): infeasible with margin -> ValueError, unbounded -> None, else value within 1e-6 relative. "
             "Non-trivial = the truth is not in the thin-infeasibility band; distinct = case digests."),
    "required": ["events:optimize", "events:get_variable_bounds", "truth:finite", "truth:unbounded", "sequences",
                 "truth:infeasible", "core_cases", "agree:finite", "agree:unbounded", "agree:infeasible"],
    "assumptions": [TB, "systems that are infeasible but become feasible when relaxed by 1e-3 are not judged"],
    "soft_s": {"quick": 900, "thorough": 3000},
}
MANIFEST_TEXT["C12"] = {
    "technique": RM + "optimize / get_variable_bounds executed on generated contracts, linprog boundary recorded, result compared with an exact rational LP optimum (z3 Optimize); sequences of objectives whose spellings differ only in white space",
    "text": ("Exploration: every optimisation answer (value / None / ValueError) of the real code is compared with the "
             "exact LP classification and optimum over Q; the solver status seen at the linprog boundary names the "
             "mechanism of a wrong answer."),
    "note": "Trusted: CPython, z3 Optimize (cross-checked by a feasibility query), pvm/exact.py.",
}

META["C08"] = {
    "level": "exploration",
    "rule": ("cases = pairs of contracts (shared inputs, shared outputs, both, disjoint, identical interface, and "
             "clashing interfaces that must be refused), with duplicated / scaled / weakened terms planted across the "
             "operands, plus the repository's stored merge; both operand orders are executed. Oracle: A_M == A_1 & A_2 "
             "and A_M & G_M == A_M & G_1 & G_2 (each direction with the tolerance), interface = unions. Non-trivial = "
             "merge returned; distinct = case digests."),
    "required": ["reach:returned:shared_in", "reach:returned:shared_out", "reach:returned:disjoint",
                 "reach:returned:same_iface", "reach:returned:shared_both", "reach:returned:corpus",
                 "outcome:clash:IncompatibleArgsError"],
    "assumptions": [NUM, TB],
    "soft_s": {"quick": 900, "thorough": 2500},
}
MANIFEST_TEXT["C08"] = {
    "technique": RM + "merge executed in both operand orders under a recording wrapper; exact z3 equivalence of the result with the conjunction of the operands",
    "text": ("Exploration: every merge result is compared (both implications, with the tolerance) with the exact "
             "conjunction of assumptions and of guarantees-under-assumptions; a refusal is accepted only when the "
             "conjunction is unsatisfiable or the union interface is ill formed."),
    "note": "Trusted: CPython, z3, pvm/exact.py.",
}

META["C15"] = {
    "level": "exploration",
    "rule": ("cases = composable / mergeable pairs, 45% with an interface-level guarantee planted in both operands "
             "(identical, scaled, weaker, stronger) on a shared input or a kept connection variable, the rest from the "
             "C01 and C08 families; both call orders, simplify on/off, random tactic orders. For every operand "
             "guarantee whose variables all lie in the result's interface: A_C & G_C & viol(t) must be UNSAT; for "
             "unconnected pairs the composition must equal the conjunction. Non-trivial = at least one "
             "interface-level term or an exactness obligation was checked; distinct = case digests."),
    "required": ["reach:compose:interface-level-terms-checked", "reach:merge:interface-level-terms-checked",
                 "reach:compose:exactness-checked", "reach:compose:connected=True:simplify=True",
                 "reach:compose:connected=False:simplify=True", "reach:compose:connected=False:simplify=False",
                 "reach:compose:overlap:identical", "reach:compose:overlap:scaled"],
    "assumptions": [NUM, TB, "operand guarantees are those of the constructed operands (after the constructor's "
                    "simplification against their own assumptions)"],
    "soft_s": {"quick": 900, "thorough": 2500},
}
MANIFEST_TEXT["C15"] = {
    "technique": RM + "compose_tactics / merge executed under wrappers; per operand guarantee an exact z3 entailment query against the result",
    "text": ("Exploration: every interface-level guarantee of either operand is checked to be entailed by the result's "
             "assumptions and guarantees, and unconnected compositions are compared with the exact conjunction."),
    "note": "Trusted: CPython, z3, pvm/exact.py.",
}

META["C14"] = {
    "level": "exploration",
    "rule": ("(a) every single-path deletion and every replacement of a value by a representative of every other JSON "
             "kind (null, bool, number, string, list, object) of a valid contract entry in both representations, "
             "through validate_contract_dict, from_dict and read_contracts_from_file, plus malformed file shapes "
             "(enumerated exhaustively, counter fault_cases); (b) adversarial shapes driven through 12 list-level and "
             "9 contract-level operations: empty lists, single variable, unbounded / degenerate contexts, more "
             "eliminated variables than rows, cancelling coefficients, equality pairs, zero constants, infeasible and "
             "thin systems, variable-free terms, duplicates, parallel rows, contracts without inputs / outputs / "
             "assumptions / guarantees; (c) the workloads of the other checks re-executed under this check's "
             "exception classifier attached to every public entry point. For every top-level public call the "
             "exception type is classified against the documented set for that operation, operands are "
             "re-snapshotted and copied after a raise. Non-trivial = at least one public call was observed; "
             "distinct = case digests."),
    "required": ["fault_cases", "file_fault_cases", "calls:PTL.elim_vars_by_refining", "calls:PTL.simplify", "refusal-chain-inspected",
                 "calls:PIC.compose_tactics", "calls:PIC.quotient_tactics", "calls:IoContract.merge",
                 "calls:ser.polyhedral_termlist_from_string", "calls:PIC.optimize",
                 "fault:read_contracts_from_file:machine:ContractFormatError",
                 "fault:read_contracts_from_file:human:ContractFormatError",
                 "raised:PIC.compose_tactics:IncompatibleArgsError", "blend:c01", "blend:c02", "blend:c04",
                 "adversarial:varfree", "adversarial:empty", "adversarial-contract:no_inputs"],
    "assumptions": [TB, "solver faults (iteration limit, numerical difficulties) are not injected: the property "
                    "quantifies over inputs and configurations", "tactic numbers outside 1..6 and arguments of the "
                    "wrong Python type are not well-formed arguments and are not generated"],
    "exhaustive": False,
    "exhaustive_note": "the dictionary-fault sub-space (one valid entry per representation) is enumerated completely",
    "soft_s": {"quick": 900, "thorough": 3000},
}
MANIFEST_TEXT["C14"] = {
    "technique": RM + "exception-type classifier on every public entry point over all workloads + adversarial shapes; exhaustive single-field faults of contract dictionaries, each also inside multi-entry files; cause/context chain of every escaping exception inspected for a lost refusal class",
    "text": ("Exploration with an enumerated core: the exception type of every top-level public call made by every "
             "workload is classified against the documented set, operands are checked unchanged and copyable after a "
             "raise, and every single-field fault of a valid dictionary entry must be rejected with "
             "ContractFormatError/ValueError or leave a still-valid entry."),
    "note": "Trusted: CPython, the 40-line reference schema of a contract dictionary in pvm/checks/c14.py.",
}

META["C06"] = {
    "level": "exploration",
    "rule": ("(E) every assignment of roles (absent/input/output in each contract) to 4 variables (6561 pairs) x "
             "{compose, quotient} x {no option, keep / additional input = each single variable} x {no input "
             "constrained, every input constrained by an assumption} and merge (quick tier: a seed-rotated sixth of "
             "that grid; thorough: all of it plus all 59049 pairs over 5 variables for the default options); (G) "
             "constructor arguments with planted faults, rename/copy cases, and pairs with arbitrary contents from the "
             "C01/C02/C08 families. An icontract class invariant on IoContract re-checks well-formedness after the "
             "constructor and every public method; the prescribed interface and the must-reject predicate are "
             "recomputed with independent set arithmetic. Non-trivial = the operation was executed on constructed "
             "operands; distinct = case digests."),
    "required": ["topology4_cases", "topology5_cases", "reach:returned:compose", "reach:returned:quotient",
                 "reach:returned:merge", "reach:returned:rename", "reach:returned:copy",
                 "reach:must-reject:compose:shared", "reach:must-reject:compose:feedback",
                 "reach:must-reject:compose:keeping", "reach:must-reject:quotient:a",
                 "reach:must-reject:quotient:additional", "reach:must-reject:merge:union",
                 "reach:must-reject:rename:variable", "constructor:dup-input:IncompatibleArgsError",
                 "constructor:none:returned", "op:refines-different-interfaces:IncompatibleArgsError",
                 "invariant_evaluations"],
    "assumptions": [TB, "icontract 2.7.3 class invariant in record-and-return-True style; interface lists are compared "
                    "as sets (duplicates and overlap are the invariant's business)"],
    "exhaustive": False,
    "exhaustive_note": "thorough tier: the 4-variable option grid and the 5-variable default grid are enumerated completely",
    "soft_s": {"quick": 900, "thorough": 3000},
}
MANIFEST_TEXT["C06"] = {
    "technique": RM + "icontract class invariant on IoContract + postconditions recomputing the prescribed interface and the must-reject predicate; bounded-exhaustive interface topologies",
    "text": ("Exploration with an enumerated core: all interface topologies of two contracts over 4 variables (5 in the "
             "thorough tier) are driven through compose / quotient / merge; every returned contract must satisfy the "
             "class invariant and have exactly the prescribed interface, every meaningless request must raise "
             "IncompatibleArgsError."),
    "note": "Trusted: CPython, icontract, the 50 lines of set arithmetic in pvm/checks/c06.py.",
}

META["C07"] = {
    "level": "exploration",
    "rule": ("cases = (constraint list, optional context) with <=6 terms over <=5 variables in the families random, "
             "planted duplicates, scalings, positive combinations, implied-only-via-context, tight and nearly tight "
             "redundancies (margins 0 .. 1e-2 .. 0.5), infeasible, no context; contracts built / simplified; "
             "compositions (nested simplifications with contexts assembled by the algebra). Every simplify event is "
             "judged: selection of the original terms, meaning kept in context (z3), no kept term implied with margin "
             "by the rest, ValueError only without an interior point; contract level: A & G unchanged. Non-trivial = "
             "at least one simplify event was judged; distinct = case digests."),
    "required": ["events:simplify:direct", "events:simplify:nested", "events:contract-level", "twin-calls",
                 "simplify:returned-on-feasible:direct", "simplify:returned-on-feasible:nested",
                 "simplify:dropped-something:direct", "simplify:raise-justified", "family:via_context",
                 "family:near_tight", "family:combinations", "family:near_ctx", "family:varfree", "family:equalities", "core_cases",
                 "events:contract-level-irredundancy"],
    "assumptions": [NUM, TB, "a kept constraint counts as redundant only when implied with a margin of "
                    "1e-4*(1+|c|); systems without an interior point at margin 1e-3 may raise or return"],
    "soft_s": {"quick": 900, "thorough": 3000},
}
MANIFEST_TEXT["C07"] = {
    "technique": RM + "wrapper on every PolyhedralTermList.simplify and on IoContract construction; exact z3 oracle for selection, equivalence in context, irredundancy with margin, justified ValueError; exact re-solve of every recorded LP (lp_audit) to tell a solver failure from a missing retry; print-alike twin lists simplified back to back",
    "text": ("Exploration: every simplification performed (directly, at contract construction, or nested inside the "
             "algebra) is judged by exact arithmetic for the four clauses of the property."),
    "note": "Trusted: CPython, z3, pvm/exact.py.",
}

META["C10"] = {
    "level": "exploration",
    "rule": ("cases = contracts whose constraints each mention a variable, magnitudes in [1e-4, 1e6] (integers, "
             "decimals with <=4 significant digits, arbitrary floats), coefficients +-1, exactly opposite term pairs "
             "planted at random positions with equal / negated / unrelated / zero constants, variable names that "
             "look like exponents, plus every contract of the repository corpus. Four round trips per case: machine "
             "dictionary (== and field-wise identity), machine file (interface + meaning within tolerance), strings "
             "read back without simplification (exact equivalence over Q with the original rounded to 4 significant "
             "digits; every printed string must be accepted), human file (tolerance). Non-trivial = all cases; "
             "distinct = case digests."),
    "required": ["reach:machine-dict", "reach:machine-file", "reach:strings-exact", "reach:human-file",
                 "reach:folded-strings", "kind:int", "kind:dec4", "kind:float", "corpus_cases"],
    "assumptions": [NUM, TB, "temporary files live in a per-case mkdtemp directory that is removed afterwards"],
    "soft_s": {"quick": 900, "thorough": 3000},
}
MANIFEST_TEXT["C10"] = {
    "technique": RM + "the real printers / parsers / file reader and writer executed on generated contracts; exact z3 equivalence with the 4-significant-digit rounding of the original, field-wise identity for the machine form",
    "text": ("Exploration: every contract is pushed through the four serialisation round trips of the real code and "
             "the result compared exactly (machine dictionary; strings vs the rounded original over Q) or within the "
             "tolerance (file reader, which re-simplifies)."),
    "note": "Trusted: CPython, z3, pvm/exact.py, float('%.4g' % x) as the definition of the printed rounding.",
}

META["C11"] = {
    "level": "exploration",
    "rule": ("cases = (constraint list with dyadic data, behaviour with dyadic values) placed on, 1/64 inside and 1/64 "
             "outside a chosen boundary, with missing and extra variables, partial evaluations; emptiness queries on "
             "feasible, unbounded, boxed and gapped systems (gap margins +-1, +-1/8, +-2e-3, +-1e-3, 0, +-1e-5; "
             "margins thinner than 5e-4 are band); consistency triples (L, R, b) with b in L whenever L refines R. "
             "Oracle: exact rational evaluation / feasibility over Q. Non-trivial = judged (not band); distinct = case "
             "digests."),
    "required": ["membership:on:True", "membership:inside:True", "membership:outside:False",
                 "membership:missing:missing-var", "membership:extra:True", "evaluate:returned", "evaluate:ValueError",
                 "emptiness:gap:empty", "emptiness:gap:nonempty", "emptiness:gap:band", "emptiness:feasible:nonempty",
                 "consistency:refines=True:inL=True:inR=True", "agree:membership:True", "agree:membership:False",
                 "agree:emptiness:empty", "agree:emptiness:nonempty"],
    "assumptions": [TB, "dyadic data so that pacti's float evaluation is exact"],
    "soft_s": {"quick": 900, "thorough": 2500},
}
MANIFEST_TEXT["C11"] = {
    "technique": RM + "contains_behavior / evaluate / is_empty executed at boundary-adjacent dyadic points; exact Fraction evaluation and z3 feasibility as oracle; cross-check with refines",
    "text": ("Exploration: every membership / emptiness answer is compared with exact rational arithmetic on points "
             "placed on and next to each boundary; a behaviour contained in L must be contained in every R that L is "
             "reported to refine."),
    "note": "Trusted: CPython fractions, z3, pvm/exact.py.",
}

META["C16"] = {
    "level": "exploration",
    "rule": ("cases = a contract (small-integer / dyadic data) with one (source, target) pair - target fresh, an "
             "existing input, an existing output, source absent, source equal to target, arbitrary - or a mapping "
             "list (swap through a temporary name, chains, repeated source, random), and single terms (including "
             "coefficients that cancel when merged). Oracle: the reference substitution on the recorded operand; "
             "A_R == sigma(A) and A_R & G_R == sigma(A & G) by z3 (tolerance), interface sets per the four cases, "
             "clash => IncompatibleArgsError, fresh-and-back restores, mapping lists folded left to right. "
             "Non-trivial = all executed cases; distinct = case digests."),
    "required": ["rename:fresh:returned", "rename:existing_input:returned", "rename:existing_output:returned",
                 "rename:existing_output:IncompatibleArgsError", "rename:absent:returned", "rename:same:returned",
                 "fresh-and-back:returned", "sequence:swap_through_temp:returned", "sequence:chain:returned",
                 "term-rename:returned"],
    "assumptions": [NUM, TB, "interface lists compared as sets plus duplicate-freeness"],
    "soft_s": {"quick": 900, "thorough": 2500},
}
MANIFEST_TEXT["C16"] = {
    "technique": RM + "rename_variable / rename_variables executed under wrappers; exact z3 comparison with the reference substitution instance, interface prescription per case",
    "text": ("Exploration: every renaming result is compared with the substitution instance of the recorded operand "
             "(assumptions, and assumptions with guarantees), the interface with the four-case prescription, and "
             "mapping lists with the left-to-right fold of single renamings."),
    "note": "Trusted: CPython, z3, the 10-line reference substitution in pvm/checks/c16.py.",
}

META["C17"] = {
    "level": "exploration",
    "rule": ("cases over 1-4 variables with 1-3 alternatives per side (boxes, some with an extra oblique constraint; "
             "disjoint with gaps >= 1/8, touching, overlapping, with empty alternatives): (a) the disjointness "
             "constructor vs exact pairwise feasibility, (b) nested membership at points on / next to a boundary vs "
             "exact evaluation, (c) nested <= vs exact containment of unions (soundness only), (d) merge of two "
             "compound contracts built with from_strings vs z3: union(result) == union(a1) & union(a2) exactly, for "
             "assumptions and guarantees, no empty alternative kept, interface = unions. Non-trivial = all executed "
             "cases; distinct = case digests."),
    "required": ["disjointness:disjoint:overlap=False:returned", "disjointness:touching:overlap=True:ValueError",
                 "disjointness:overlapping:overlap=True:ValueError", "disjointness:subsets:overlap=True:ValueError",
                 "membership:True", "membership:False",
                 "le:answer=True:counterexample=unsat", "le:answer=False:counterexample=sat", "merge:returned",
                 "merge:result-alternatives", "agree:membership:True", "agree:membership:False"],
    "assumptions": [NUM, TB],
    "soft_s": {"quick": 900, "thorough": 2500},
}
MANIFEST_TEXT["C17"] = {
    "technique": RM + "NestedTermList / compound merge executed on generated unions of boxes; z3 disjunction semantics as the oracle",
    "text": ("Exploration: membership, the disjointness constructor, the nested <= and compound merging are compared "
             "with the exact union-of-polyhedra semantics decided by z3."),
    "note": "Trusted: CPython, z3, pvm/exact.py.",
}

META["C18"] = {
    "level": "exploration",
    "rule": ("cases = constraint lists over 2-4 variables with small-integer coefficients, integer values for the "
             "non-plotted variables and integer axis limits in [-5,5], x/y roles swapped at random; families: random, "
             "many-sided (4-8 oblique cuts), degenerate (equality pairs: segments and points), empty, missing value. "
             "Oracle: exact rational vertex enumeration of the slice (pairwise line intersections filtered by all "
             "rows): returned point set == corner set within 1e-6 (duplicates tolerated), every point satisfies all "
             "rows, for >=3 corners the sequence is a rotation of the angular order, ValueError <=> empty slice or "
             "missing value. Non-trivial = all executed cases; distinct = case digests."),
    "required": ["slice:polygon3:returned", "slice:polygon4:returned", "slice:polygon5:returned",
                 "slice:polygon6:returned", "slice:polygon8:returned", "slice:segment:returned", "slice:point:returned",
                 "slice:empty:ValueError", "refuse:missing-value:ValueError"],
    "assumptions": [TB, "matplotlib on the Agg backend; Qhull and HiGHS are observed only through the routine's return"],
    "soft_s": {"quick": 900, "thorough": 2500},
}
MANIFEST_TEXT["C18"] = {
    "technique": RM + "constraints_to_vertices executed on generated slices; exact rational vertex enumeration as the oracle (set equality, constraint satisfaction, angular order, emptiness)",
    "text": ("Exploration: every returned vertex list is compared with the exactly enumerated corner set of the slice, "
             "each point re-checked against all constraints, the order against the angular order, and ValueError "
             "against exact emptiness."),
    "note": "Trusted: CPython fractions and the 25-line exact vertex enumeration in pvm/checks/c18.py.",
}

META["C13"] = {
    "level": "exploration",
    "rule": ("cases = steps of sessions (histories of 30 operations drawn from compose, quotient, merge, refines, "
             "rename, copy, simplify, both eliminations, list refinement / union / difference, optimize, bounds, "
             "machine and string round trips, to_dict, parse, is_empty, contains_behavior, environment / "
             "implementation membership) over a shared pool of contracts, term lists and strings into which results "
             "are fed back. Around every step: deep snapshots (float.hex) of every pool member, of the option lists "
             "and of the module-level tactic tables; purity flags of every nested monitored call; id-graph aliasing "
             "check of the result against the pool and in-place mutation of the result followed by a re-snapshot; "
             "30% (thorough 60%) of the steps are replayed from their serialized operands in a fork of a pristine "
             "zygote process and 6 steps per history are repeated at the end of the session. Non-trivial = every "
             "executed step; distinct = step digests."),
    "required": ["histories", "purity-snapshots", "aliasing-checks", "pristine-replays", "end-of-session-repeats", "lookalike-follow-ups", "step:from_strings:ret", "step:bounds:ret",
                 "repeat-while-result-modified",
                 "step:compose:ret", "step:quotient:ret", "step:merge:ret", "step:rename:ret", "step:copy:ret",
                 "step:elim_refine:ret", "step:elim_relax:ret", "step:lsimplify:ret", "step:optimize:ret",
                 "step:parse:ret", "step:string_roundtrip:ret", "step:machine_roundtrip:ret"],
    "assumptions": [TB, "os.fork of a single-threaded interpreter (BLAS threads pinned to 1); Var objects are treated "
                    "as values and may be shared"],
    "soft_s": {"quick": 900, "thorough": 3000},
}
MANIFEST_TEXT["C13"] = {
    "technique": RM + "session driver over a shared pool with deep before/after snapshots of every live object, option list and module table; id-graph aliasing check and result mutation; replay of steps in a forked pristine interpreter and at the end of the session; look-alike operands (one -1 turned -2, texts differing only in blanks) asked the same question back to back",
    "text": ("Exploration over histories: every step of every generated session is checked for purity (all pool "
             "members, option lists, module state, every nested monitored call), for aliasing between result and "
             "operands, and for history independence against a pristine interpreter state and against its own "
             "repetition at the end of the session."),
    "note": "Trusted: CPython, os.fork semantics, the snapshot function in pvm/probes.py.",
}

META["C05"] = {
    "level": "fault_enumeration",
    "rule": ("executions of the real generic IoContract.compose / quotient / merge with a symbolic TermList whose "
             "primitives follow an outcome script. Enumerated: every assignment of roles (absent / input / output in "
             "each contract) to 1 and 2 variables x 3 content shapes x 3 operations x {no option, keep / additional "
             "input = each variable}; for each, depth-first over the observed primitive-call sequence: every script "
             "with at most 2 non-ideal outcomes (quick) or every script (thorough) out of refine {full-max, full-own, "
             "leftover, ValueError (+ empty-support, partial)}, relax {full-max, full-own, drop, leftover, "
             "ValueError (+ empty-support)}, simplify {same, drop-first, ValueError (+ drop-last)}, refines "
             "{True, False}; plus a seeded sample of 3-variable topologies. For every returned contract the C01 / "
             "C02 / C08 obligation must be a propositional consequence of the axioms granted by the primitive "
             "specifications (z3). Non-trivial = at least one primitive call was consumed or a contract returned; "
             "distinct = (topology, script) digests."),
    "required": ["scripts", "topologies:2-var", "topologies:3-var", "obligations-checked:compose",
                 "obligations-checked:quotient", "obligations-checked:merge", "runs:compose:IncompatibleArgsError",
                 "runs:quotient:IncompatibleArgsError", "consumed:refine:leftover", "consumed:refine:verr",
                 "consumed:relax:drop", "consumed:relax:verr", "consumed:relax:leftover", "consumed:simplify:drop-first",
                 "consumed:simplify:verr", "consumed:refines:true", "consumed:refines:false"],
    "assumptions": [TB, "atoms are uninterpreted predicates; the axioms are exactly the documented specifications of "
                    "the abstract TermList primitives", "operand contracts are built without simplification so that "
                    "every scripted call belongs to the operation under test"],
    "exhaustive": False,
    "exhaustive_note": ("thorough tier: all outcome scripts for all 1- and 2-variable topologies are enumerated "
                        "completely (lazy depth-first over the observed call sequence)"),
    "soft_s": {"quick": 900, "thorough": 3300},
}
MANIFEST_TEXT["C05"] = {
    "technique": RM + "the real generic IoContract executed against a scripted symbolic TermList (fault enumeration over primitive outcomes and interface topologies); recorded axiom trace checked propositionally with z3",
    "text": ("Fault enumeration: the primitives of the constraint domain are replaced by an environment that "
             "enumerates their possible outcomes (including failures); every result the real algebra code returns "
             "must satisfy its obligation as a consequence of what the primitives' specifications grant."),
    "note": "Trusted: CPython, z3 (propositional), the 120-line symbolic TermList in pvm/checks/c05.py.",
}
