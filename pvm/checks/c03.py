"""C03 - refinement tests decide semantic containment exactly."""
from __future__ import annotations

from typing import Any, Dict, List, Optional

from pvm import exact as X
from pvm import gen, monitors as M
from pvm.core import Ctx
from pvm import probes as P

PROP = "C03"
EXACT_STYLES = ("int", "dyadic", "unit")

_rec = None


def recorder() -> P.Recorder:
    global _rec
    if _rec is None:
        _rec = P.Recorder()
        P.attach_l0(_rec)
        P.attach_l2(_rec, ["refines"])
        P.attach_l3(_rec, ioc=["refines", "contains_environment", "contains_implementation"], pic=[])
    return _rec


def relax(tl: List[Dict[str, Any]], rel: float) -> List[Dict[str, Any]]:
    return [{"c": t["c"], "k": t["k"] + rel * (1 + abs(t["k"]))} for t in tl]


def classify(left: List[Dict[str, Any]], right: List[Dict[str, Any]]) -> str:
    """'T' | 'F' | 'band' | 'unknown' for left subset-of right, with thin-emptiness moved into the band."""
    if not right:
        return "T"
    cls = X.classify_containment(left, right)
    if cls == "T":
        # if T only because left is (thinly) infeasible, do not demand an answer
        if X.feasible(left) == "unsat" and X.feasible(relax(left, 1e-3)) != "unsat":
            return "band"
    return cls


def lp_mechanism(ev: P.Event, want: bool) -> str:
    """Name the mechanism of a wrong refines answer from the LPs it solved."""
    lps = [e for e in ev.walk() if e.op == "linprog" and e.out == "ret"]
    if want and lps:
        last = lps[-1]
        try:
            res = last.res["LP"]
            b = last.args["b_ub"]["ND"][-1] - 1
            if res["status"] == 2:
                return "linprog-status2-on-feasible"
            if res["status"] == 0 and res["fun"] is not None:
                over = -res["fun"] - b
                if 0 < over <= 1e-6 * (1 + abs(b)):
                    return "ulp-compare"
        except Exception:  # noqa: BLE001
            pass
    audit = M.lp_audit(ev.walk())
    return "logic:answered-%s-want-%s%s" % (not want, want, (":" + audit) if audit else "")


def judge_list_refines(ctx: Ctx, ev: P.Event, case: Any, exact_ok: bool) -> None:
    left = M._L(ev.args.get("self"))
    right = M._L(ev.args.get("other"))
    if left is None or right is None:
        return
    ctx.count("events:PTL.refines")
    if ev.out != "ret":
        # undocumented exception types are C14's business (its check runs this workload too)
        ctx.count("list:raised:%s" % ev.exc)
        return
    cls = classify(left, right)
    if cls == "unknown":
        ctx.inconclusive_case()
        return
    lempty = X.feasible(left) == "unsat"
    ctx.count("list:%s:%s" % (cls, "Lempty" if lempty else "Lfeasible"))
    if cls == "band":
        return
    if cls == "T" and not exact_ok:
        ctx.count("list:T-skipped-inexact-style")
        return
    got = bool(ev.res)
    want = cls == "T"
    if got != want:
        mech = lp_mechanism(ev, want)
        ctx.violation(mech, "refines(%s, %s) answered %s; exact containment is %s" % (
            X.fmt_list(left), X.fmt_list(right), got, want), case)
    if ev.mutated:
        ctx.violation("mutated-operand", "refines modified %s" % ev.mutated, case)


def contract_truth(c1: Dict[str, Any], c2: Dict[str, Any]) -> str:
    a = classify(c2["a"], c1["a"])
    g = classify(c1["g"] + c2["a"], c2["g"] + c2["a"])
    if "unknown" in (a, g):
        return "unknown"
    if a == "F" or g == "F":
        # a definite False needs one definite False and the other side not thinly-empty dependent
        return "F"
    if a == "T" and g == "T":
        return "T"
    return "band"


def run_case(ctx: Ctx, case: Dict[str, Any]) -> None:  # noqa: C901
    rec = recorder()
    rec.reset()
    kind = case["kind"]
    exact_ok = case.get("style") in EXACT_STYLES
    fam = case.get("family", "?")
    nontrivial = False
    if kind == "list":
        L = P.mk_list(case["left"])
        R = P.mk_list(case["right"])
        try:
            L.refines(R)
        except Exception:  # noqa: BLE001
            pass
        for ev in rec.roots:
            if ev.op == "PTL.refines":
                judge_list_refines(ctx, ev, case, exact_ok)
                nontrivial = True
        ctx.count("family:list:" + fam)
    elif kind == "contract":
        try:
            c1 = P.mk_contract(case["c1"], simplify=True)
            c2 = P.mk_contract(case["c2"], simplify=True)
        except ValueError:
            ctx.count("gen:contract-construction-rejected")
            ctx.case_done(case, False)
            return
        s1, s2 = X.snap_contract(c1), X.snap_contract(c2)
        rec.reset()
        same_iface = set(s1["in"]) == set(s2["in"]) and set(s1["out"]) == set(s2["out"])
        try:
            got: Any = c1 <= c2
            outcome = "ret"
        except Exception as e:  # noqa: BLE001
            got = e
            outcome = "raise"
        ctx.count("events:IoContract.refines")
        nontrivial = True
        if not same_iface:
            ctx.count("contract:different-interfaces")
            if outcome != "raise" or type(got).__name__ != "IncompatibleArgsError":
                ctx.violation("iface-not-rejected", "refines across different interfaces %s/%s vs %s/%s gave %r" % (
                    s1["in"], s1["out"], s2["in"], s2["out"], got), case)
        elif outcome == "raise":
            if not isinstance(got, ValueError):
                ctx.count("undocumented-exception(C14):%s" % type(got).__name__)
            elif type(got).__name__ == "IncompatibleArgsError":
                ctx.violation("same-interface-rejected", "refines on equal interfaces raised %r" % got, case)
            else:
                ctx.count("contract:raised:ValueError")
        else:
            cls = contract_truth(s1, s2)
            ctx.count("contract:%s:%s" % (fam, cls))
            if cls == "unknown":
                ctx.inconclusive_case()
            elif cls != "band" and not (cls == "T" and not exact_ok):
                if bool(got) != (cls == "T"):
                    ev0 = rec.roots[0] if rec.roots else None
                    mech = lp_mechanism(ev0, cls == "T") if ev0 is not None else "logic"
                    ctx.violation("contract:" + mech, "(%s) <= (%s) answered %s; exact refinement is %s" % (
                        s1, s2, got, cls == "T"), case)
        # nested list-level events are judged too
        for ev in rec.events():
            if ev.op == "PTL.refines":
                judge_list_refines(ctx, ev, case, exact_ok)
    else:  # env / impl
        try:
            c = P.mk_contract(case["contract"], simplify=True)
        except ValueError:
            ctx.count("gen:contract-construction-rejected")
            ctx.case_done(case, False)
            return
        sc = X.snap_contract(c)
        comp = P.mk_list(case["comp"])
        rec.reset()
        try:
            got = c.contains_environment(comp) if kind == "env" else c.contains_implementation(comp)
            outcome = "ret"
        except Exception as e:  # noqa: BLE001
            got = e
            outcome = "raise"
        ctx.count("events:contains_" + kind)
        nontrivial = True
        if outcome == "raise":
            ctx.count("%s:raised:%s" % (kind, type(got).__name__))
        else:
            if kind == "env":
                cls = classify(case["comp"], sc["a"])
            else:
                cls = classify(case["comp"] + sc["a"], sc["g"] + sc["a"])
            ctx.count("%s:%s" % (kind, cls))
            if cls == "unknown":
                ctx.inconclusive_case()
            elif cls != "band" and not (cls == "T" and not exact_ok):
                if bool(got) != (cls == "T"):
                    ctx.violation("membership:%s" % kind, "contains_%s(%s) on %s answered %s; exact answer is %s" % (
                        kind, X.fmt_list(case["comp"]), sc, got, cls == "T"), case)
        for ev in rec.events():
            if ev.op == "PTL.refines":
                judge_list_refines(ctx, ev, case, exact_ok)
    sample = None
    if nontrivial and len(ctx.samples) < 3 and rec.roots:
        ev = rec.roots[0]
        sample = {"case": case, "outcome": ev.out, "answer": ev.res if ev.out == "ret" else ev.exc}
    ctx.case_done(case, nontrivial, sample)


def run(ctx: Ctx) -> None:
    n = ctx.n(30000, 500000)
    for i in range(n):
        if ctx.out_of_time():
            break
        run_case(ctx, blend_case(ctx.rng))


def replay(ctx: Ctx, case: Dict[str, Any]) -> None:
    run_case(ctx, case)


def blend_case(rng) -> Dict[str, Any]:
    r = rng.random()
    if r < 0.6:
        return gen.containment_pair(rng)
    if r < 0.85:
        return gen.contract_pair(rng)
    return gen.membership_case(rng)
