"""C05 - the algebra layer is sound for any constraint domain that meets the primitive specs.

The real generic ``IoContract`` (compose / quotient / merge / constructor) is executed with a symbolic
``TermList`` whose terms are named atoms with a variable support.  Its primitives are a scripted
environment: every call pops the next outcome from a script (explored depth-first over the *observed* call
sequence) and appends to a trace the axiom that the primitive's documented specification grants.  The
obligation of C01 / C02 / C08 for the returned contract must then be a propositional consequence of the
recorded axioms; if it is not, the falsifying assignment read as constant predicates is a conforming
constraint domain on which the result is wrong.
"""
from __future__ import annotations

import itertools
from typing import Any, Dict, List, Optional, Tuple

import z3

from pvm.core import Ctx
from pvm import probes as P

PROP = "C05"

Var = P.Var
IoContract = P.IoContract
TermList = P.ioc_mod.TermList
Term = P.ioc_mod.Term

REFINE_OUT = ["full-max", "full-own", "leftover", "verr", "full-empty", "partial"]
RELAX_OUT = ["full-max", "full-own", "drop", "leftover", "verr", "full-empty"]
SIMPLIFY_OUT = ["same", "drop-first", "verr", "drop-last"]
REFINES_OUT = ["true", "false"]


class Atom(Term):
    def __init__(self, name: str, vs: List[Any]):
        self.name = name
        self._vars = list(vs)

    @property
    def vars(self) -> List[Any]:  # noqa: A003
        return list(self._vars)

    def contains_var(self, v: Any) -> bool:
        return v in self._vars

    def __eq__(self, o: object) -> bool:
        return isinstance(o, Atom) and self.name == o.name

    def __hash__(self) -> int:
        return hash(self.name)

    def __str__(self) -> str:
        return "%s(%s)" % (self.name, ",".join(v.name for v in self._vars))

    __repr__ = __str__

    def copy(self) -> "Atom":
        return Atom(self.name, self._vars)

    def rename_variable(self, s: Any, t: Any) -> "Atom":
        return Atom(self.name, [t if v == s else v for v in self._vars])


class World:
    """The scripted environment and the trace of axioms granted by the primitives' specifications."""

    def __init__(self, script: List[int]):
        self.script = list(script)
        self.pos = 0
        self.axioms: List[Any] = []
        self.n = 0
        self.log: List[Tuple[str, int, int, str]] = []

    def fresh(self, vs: List[Any]) -> Atom:
        self.n += 1
        return Atom("x%d" % self.n, vs)

    def next(self, kind: str, options: List[str]) -> str:
        idx = self.script[self.pos] if self.pos < len(self.script) else 0
        if idx >= len(options):
            idx = 0
        self.pos += 1
        self.log.append((kind, idx, len(options), options[idx]))
        return options[idx]


W: Optional[World] = None
NALT = {"refine": 4, "relax": 5, "simplify": 3, "refines": 2}


def B(a: Atom) -> Any:
    return z3.Bool(a.name)


def conj(tl: Any) -> Any:
    return z3.And([B(t) for t in tl.terms]) if tl.terms else z3.BoolVal(True)


class SymTL(TermList):
    def __hash__(self) -> int:
        return hash(tuple(self.terms))

    def contains_behavior(self, b: Any) -> bool:
        raise NotImplementedError

    def is_empty(self) -> bool:
        return False

    def _elim(self, context: Any, vars_to_elim: List[Any], refine: bool) -> Tuple[Any, list]:
        assert W is not None
        opts = (REFINE_OUT if refine else RELAX_OUT)[: NALT["refine" if refine else "relax"]]
        o = W.next("refine" if refine else "relax", opts)
        if o == "verr":
            raise ValueError("primitive failed")
        keep = [t for t in self.terms if not set(t.vars) & set(vars_to_elim)]
        hit = [t for t in self.terms if set(t.vars) & set(vars_to_elim)]
        out = list(keep)
        if o == "leftover":
            out = list(self.terms)
        elif o == "drop":
            pass
        else:
            for k, t in enumerate(hit):
                if o == "partial" and k == 0:
                    out.append(t)
                    continue
                if o == "full-max":
                    sup = [v for v in dict.fromkeys(self.vars + context.vars) if v not in vars_to_elim]
                elif o == "full-own":
                    sup = [v for v in t.vars if v not in vars_to_elim]
                else:
                    sup = []
                out.append(W.fresh(sup))
        res = SymTL(out)
        if refine:
            W.axioms.append(z3.Implies(z3.And(conj(context), conj(res)), conj(self)))
        else:
            W.axioms.append(z3.Implies(z3.And(conj(context), conj(self)), conj(res)))
        return res, []

    def elim_vars_by_refining(self, context: Any, vars_to_elim: List[Any], simplify: bool = True,
                              tactics_order: Any = None) -> Tuple[Any, list]:
        return self._elim(context, vars_to_elim, True)

    def elim_vars_by_relaxing(self, context: Any, vars_to_elim: List[Any], simplify: bool = True,
                              tactics_order: Any = None) -> Tuple[Any, list]:
        return self._elim(context, vars_to_elim, False)

    def simplify(self, context: Any = None) -> Any:
        assert W is not None
        o = W.next("simplify", SIMPLIFY_OUT[: NALT["simplify"]])
        if o == "verr":
            raise ValueError("infeasible")
        if o in ("drop-first", "drop-last") and self.terms:
            res = SymTL(self.terms[1:] if o == "drop-first" else self.terms[:-1])
            c = conj(context) if context is not None else z3.BoolVal(True)
            # equivalence in the context
            W.axioms.append(z3.Implies(c, conj(res) == conj(self)))
            return res
        return self.copy()

    def refines(self, other: Any) -> bool:
        assert W is not None
        o = W.next("refines", REFINES_OUT)
        if o == "true":
            W.axioms.append(z3.Implies(conj(self), conj(other)))
            return True
        return False


def consequence(f: Any) -> Tuple[bool, Optional[str]]:
    assert W is not None
    s = z3.Solver()
    for a in W.axioms:
        s.add(a)
    s.add(z3.Not(f))
    r = s.check()
    if r == z3.unsat:
        return True, None
    if r == z3.sat:
        m = s.model()
        return False, ", ".join("%s=%s" % (d.name(), m[d]) for d in m.decls())
    return True, "unknown"


def mk(name: str, ins: List[str], outs: List[str], content: str) -> Any:
    """content: 'all' (atoms mention every allowed variable), 'free-a' (assumption atom without support),
    'split' (one atom per variable)."""
    iv, ov = [Var(v) for v in ins], [Var(v) for v in outs]
    if content == "split":
        a = [Atom("A%s_%s" % (name, v), [Var(v)]) for v in ins] or [Atom("A%s" % name, [])]
        g = [Atom("G%s_%s" % (name, v), iv + [Var(v)]) for v in outs] or [Atom("G%s" % name, iv)]
    elif content == "free-a":
        a = [Atom("A%s" % name, [])]
        g = [Atom("G%s" % name, iv + ov), Atom("H%s" % name, ov)]
    else:
        a = [Atom("A%s" % name, iv)]
        g = [Atom("G%s" % name, iv + ov), Atom("H%s" % name, ov[:1] + iv[:1])]
    return IoContract(raw_list(a), raw_list(g), iv, ov, simplify=False)


def raw_list(atoms: List[Atom]) -> Any:
    """An operand list that certainly holds the given atoms (the generic constructor is part of the code under test)."""
    tl = SymTL([])
    tl.terms = list(atoms)
    return tl


def hon(c: Any) -> Any:
    return z3.Implies(conj(c.a), conj(c.g))


def wellformed(c: Any) -> Optional[str]:
    ins, outs = [v.name for v in c.inputvars], [v.name for v in c.outputvars]
    if len(set(ins)) != len(ins) or len(set(outs)) != len(outs) or set(ins) & set(outs):
        return "interface lists %s / %s" % (ins, outs)
    av = {v.name for v in c.a.vars}
    gv = {v.name for v in c.g.vars}
    if av - set(ins):
        return "assumptions mention %s" % sorted(av - set(ins))
    if gv - set(ins) - set(outs):
        return "guarantees mention %s" % sorted(gv - set(ins) - set(outs))
    return None


def run_script(ctx: Ctx, topo: Dict[str, Any], script: List[int]) -> List[Tuple[str, int, int, str]]:
    """Execute one operation under one outcome script; judge; return the observed decision log."""
    global W
    W = World(script)
    op = topo["op"]
    c1 = mk("1", topo["in1"], topo["out1"], topo["content"])
    c2 = mk("2", topo["in2"], topo["out2"], topo["content"])
    case = {"topology": topo, "script": list(script)}
    for c in (c1, c2):
        if not c.a.terms or not c.g.terms:
            ctx.violation("operand-lost-its-terms", "a contract built from non-empty symbolic lists holds A=%s G=%s: the "
                          "generic TermList constructor / copy dropped the terms" % (c.a, c.g), case)
            ctx.case_done(case, True)
            return []
    try:
        if op == "compose":
            res = c1.compose(c2, [Var(v) for v in topo["opt"]])
        elif op == "quotient":
            res = c1.quotient(c2, [Var(v) for v in topo["opt"]])
        else:
            res = c1.merge(c2)
        out = "returned"
    except P.IncompatibleArgsError:
        out = "IncompatibleArgsError"
        res = None
    except ValueError:
        out = "ValueError"
        res = None
    except Exception as e:  # noqa: BLE001
        out = type(e).__name__
        res = None
        ctx.violation("exc:%s@%s" % (out, P.exc_origin(e)), "%s of symbolic contracts raised %s under outcomes %s" % (
            op, out, [x[3] for x in W.log]), case)
    log = list(W.log)
    ctx.count("runs:%s:%s" % (op, out))
    for k, (kind, idx, ar, name) in enumerate(log):
        ctx.count("consumed:%s:%s" % (kind, name))
    if res is not None:
        wf = wellformed(res)
        if wf:
            ctx.violation("%s:ill-formed-result" % op, "%s returned an ill-formed contract (%s) under outcomes %s" % (
                op, wf, [x[3] for x in log]), case)
        if op == "compose":
            ob = z3.Implies(z3.And(conj(res.a), hon(c1), hon(c2)), z3.And(conj(c1.a), conj(c2.a), conj(res.g)))
            obs = [("compose-obligation", ob)]
        elif op == "quotient":
            ob = z3.Implies(z3.And(conj(c1.a), hon(c2), hon(res)), z3.And(conj(c2.a), conj(res.a), conj(c1.g)))
            obs = [("quotient-obligation", ob)]
        else:
            obs = [("merge-assumptions", conj(res.a) == z3.And(conj(c1.a), conj(c2.a))),
                   ("merge-guarantees", z3.And(conj(res.a), conj(res.g)) == z3.And(conj(res.a), conj(c1.g),
                                                                                   conj(c2.g)))]
        for nm, f in obs:
            ok, model = consequence(f)
            if model == "unknown":
                ctx.inconclusive_case()
            elif not ok:
                ctx.violation("%s-not-a-consequence" % nm, "%s of %s and %s under primitive outcomes %s returned %s: "
                              "the obligation does not follow from what the primitives' specifications grant; "
                              "counter-domain: %s" % (op, c1, c2, [x[3] for x in log], res, model), case)
        ctx.count("obligations-checked:%s" % op)
    sample = None
    if len(ctx.samples) < 3 and res is not None and len(log) >= 4:
        sample = {"topology": topo, "outcomes": [x[3] for x in log], "result": str(res)}
    ctx.case_done(case, len(log) > 0 or res is not None, sample)
    return log


def explore(ctx: Ctx, topo: Dict[str, Any], max_dev: Optional[int]) -> int:
    """Depth-first over the observed call sequence (an odometer on the decision log)."""
    script: List[int] = []
    n = 0
    while True:
        log = run_script(ctx, topo, script)
        n += 1
        chosen = [idx for (_, idx, _, _) in log]
        # next script: increment the last position that still has an untried alternative
        p = len(log) - 1
        nxt = None
        while p >= 0:
            if chosen[p] + 1 < log[p][2]:
                cand = chosen[:p] + [chosen[p] + 1]
                if max_dev is None or sum(1 for x in cand if x != 0) <= max_dev:
                    nxt = cand
                    break
                # deviation budget exhausted at this position: try the next alternative at an earlier position
            p -= 1
        if nxt is None or n > 200000:
            return n
        script = nxt


ROLES = "-io"


def topologies(nvars: int):
    V = ["v%d" % k for k in range(1, nvars + 1)]
    for r1 in itertools.product(ROLES, repeat=nvars):
        for r2 in itertools.product(ROLES, repeat=nvars):
            in1 = [v for v, r in zip(V, r1) if r == "i"]
            out1 = [v for v, r in zip(V, r1) if r == "o"]
            in2 = [v for v, r in zip(V, r2) if r == "i"]
            out2 = [v for v, r in zip(V, r2) if r == "o"]
            for content in ("all", "free-a", "split"):
                for op in ("compose", "quotient", "merge"):
                    opts: List[List[str]] = [[]]
                    if op != "merge":
                        opts += [[v] for v in V]
                    for opt in opts:
                        yield {"op": op, "in1": in1, "out1": out1, "in2": in2, "out2": out2, "content": content,
                               "opt": opt}


def run_case(ctx: Ctx, case: Dict[str, Any]) -> None:
    set_alternatives(case.get("alts", "thorough"))
    run_script(ctx, case["topology"], case["script"])


def set_alternatives(tier: str) -> None:
    if tier == "quick":
        NALT.update({"refine": 4, "relax": 5, "simplify": 3, "refines": 2})
    else:
        NALT.update({"refine": 6, "relax": 6, "simplify": 4, "refines": 2})


def run(ctx: Ctx) -> None:
    import random

    set_alternatives("quick" if ctx.quick() else "thorough")
    k = 0
    # E: every topology over 1 and 2 variables; quick: scripts with at most 2 deviations from the ideal outcome,
    #    thorough: every script (depth-first over the observed call sequence)
    for nv in (1, 2):
        for topo in topologies(nv):
            k += 1
            if not ctx.mine(k):
                continue
            n = explore(ctx, topo, 2 if ctx.quick() else None)
            ctx.count("topologies:%d-var" % nv)
            ctx.count("scripts", n)
            if ctx.out_of_time():
                return
    # three variables: a seeded sample of topologies, scripts with at most 2 (thorough: 3) deviations
    r = random.Random(ctx.seed * 7919 + ctx.shard)
    all3 = None
    nsample = ctx.n(600, 12000)
    V = ["v1", "v2", "v3"]
    for _ in range(nsample):
        if ctx.out_of_time():
            return
        r1 = [r.choice(ROLES) for _ in V]
        r2 = [r.choice(ROLES) for _ in V]
        op = r.choice(["compose", "quotient", "merge"])
        topo = {"op": op, "in1": [v for v, x in zip(V, r1) if x == "i"], "out1": [v for v, x in zip(V, r1) if x == "o"],
                "in2": [v for v, x in zip(V, r2) if x == "i"], "out2": [v for v, x in zip(V, r2) if x == "o"],
                "content": r.choice(["all", "free-a", "split"]),
                "opt": [r.choice(V)] if (op != "merge" and r.random() < 0.4) else []}
        n = explore(ctx, topo, 2 if ctx.quick() else 3)
        ctx.count("topologies:3-var")
        ctx.count("scripts", n)
    _ = all3


def blend_case(rng) -> Dict[str, Any]:
    V = ["v1", "v2"]
    r1 = [rng.choice(ROLES) for _ in V]
    r2 = [rng.choice(ROLES) for _ in V]
    topo = {"op": rng.choice(["compose", "quotient", "merge"]), "in1": [v for v, x in zip(V, r1) if x == "i"],
            "out1": [v for v, x in zip(V, r1) if x == "o"], "in2": [v for v, x in zip(V, r2) if x == "i"],
            "out2": [v for v, x in zip(V, r2) if x == "o"], "content": rng.choice(["all", "free-a", "split"]), "opt": []}
    return {"topology": topo, "script": [rng.randint(0, 3) for _ in range(6)], "alts": "quick"}


def replay(ctx: Ctx, case: Dict[str, Any]) -> None:
    if "alts" not in case:
        case = dict(case, alts="thorough" if ctx.tier == "thorough" else "quick")
    run_case(ctx, case)
