"""C06 - results are well formed with the prescribed interface; bad interfaces are rejected."""
from __future__ import annotations

import itertools
from typing import Any, Dict, List, Optional, Set, Tuple

from pvm import env

env.ensure_deps()

from pvm import exact as X  # noqa: E402
from pvm import gen, monitors as M  # noqa: E402
from pvm.core import Ctx  # noqa: E402
from pvm import probes as P  # noqa: E402

PROP = "C06"

# ----------------------------------------------------------------------------------------------
# class invariant (icontract), in the "record and return True" style


class InvariantBroken(Exception):
    pass


INV = {"evaluations": 0, "broken": []}
_installed = False


def well_formed(self: Any) -> bool:
    INV["evaluations"] += 1
    try:
        d = self.__dict__
        if "inputvars" not in d or "g" not in d:
            return True  # not yet initialised
        why = M.wellformed(X.snap_contract(self))
    except Exception as e:  # noqa: BLE001
        why = "contract cannot be inspected: %s" % type(e).__name__
    if why and len(INV["broken"]) < 20:
        try:
            INV["broken"].append((why, X.snap_contract(self)))
        except Exception:  # noqa: BLE001
            INV["broken"].append((why, None))
    return True


def install_invariant() -> bool:
    global _installed
    if _installed:
        return True
    try:
        import icontract

        icontract.invariant(well_formed, error=InvariantBroken)(P.IoContract)
        _installed = True
    except Exception:  # noqa: BLE001
        _installed = False
    return _installed


# ----------------------------------------------------------------------------------------------
# prescriptions (independent set arithmetic written from the property text)


def S(x) -> Set[str]:
    return set(x)


def amentions(c: Dict[str, Any]) -> Set[str]:
    return {v for t in c["a"] for v, k in t["c"].items() if k != 0}


def prescribe_compose(c1, c2, keep) -> Tuple[Optional[str], Set[str], Set[str]]:
    i1, o1, i2, o2 = S(c1["in"]), S(c1["out"]), S(c2["in"]), S(c2["out"])
    reject = None
    if o1 & o2:
        reject = "shared outputs"
    elif (i1 & o2) and (i2 & o1) and ((o2 & amentions(c1)) or (o1 & amentions(c2))):
        reject = "feedback onto inputs that an assumption constrains"
    elif S(keep) - (o1 | o2):
        reject = "keeping a non-output"
    ins = (i1 - o2) | (i2 - o1)
    outs = (o1 - i2) | (o2 - i1) | S(keep)
    return reject, ins, outs


def prescribe_quotient(top, div, addl) -> Tuple[Optional[str], Set[str], Set[str]]:
    it, ot, i1, o1 = S(top["in"]), S(top["out"]), S(div["in"]), S(div["out"])
    reject = None
    if (ot - o1) & i1:
        reject = "a quotient output that the divisor reads"
    elif S(addl) - (it | o1):
        reject = "additional inputs that are neither dividend inputs nor divisor outputs"
    ins = (it - i1) | (o1 - ot) | S(addl)
    outs = (ot - o1) | (i1 - it)
    return reject, ins, outs


def prescribe_merge(c1, c2) -> Tuple[Optional[str], Set[str], Set[str]]:
    ins = S(c1["in"]) | S(c2["in"])
    outs = S(c1["out"]) | S(c2["out"])
    return ("union interface has a variable that is both input and output" if ins & outs else None), ins, outs


def prescribe_rename(c, src, dst) -> Tuple[Optional[str], List[str], List[str]]:
    ins, outs = list(c["in"]), list(c["out"])
    if src == dst or (src not in ins and src not in outs):
        return None, ins, outs
    if src in ins:
        if dst in outs:
            return "variable would be both input and output", ins, outs
        ins = [dst if v == src else v for v in ins] if dst not in ins else [v for v in ins if v != src]
    else:
        if dst in ins:
            return "variable would be both input and output", ins, outs
        outs = [dst if v == src else v for v in outs] if dst not in outs else [v for v in outs if v != src]
    return None, ins, outs


# ----------------------------------------------------------------------------------------------


def judge_op(ctx: Ctx, op: str, case: Any, reject: Optional[str], ins: Set[str], outs: Set[str], fn) -> None:
    before = len(INV["broken"])
    try:
        res = fn()
        outcome = "returned"
    except Exception as e:  # noqa: BLE001
        res = e
        outcome = type(e).__name__
    ctx.count("op:%s:%s%s" % (op, outcome, ":must-reject" if reject else ""))
    if reject:
        ctx.count("reach:must-reject:%s:%s" % (op, reject.split(" ")[0]))
        if outcome != "IncompatibleArgsError":
            ctx.violation("%s:not-rejected:%s" % (op, reject.replace(" ", "-")),
                          "%s with %s must raise IncompatibleArgsError but %s" % (
                              op, reject, "returned a contract" if outcome == "returned" else "raised " + outcome),
                          case)
        return
    if outcome != "returned":
        if not isinstance(res, ValueError):
            ctx.count("undocumented-exception(C14):%s:%s" % (op, outcome))
        return
    r = res[0] if isinstance(res, tuple) else res
    try:
        sr = X.snap_contract(r)
    except Exception as e:  # noqa: BLE001
        ctx.violation("%s:result-not-a-contract" % op, "%s returned %r (%s)" % (op, r, e), case)
        return
    ctx.count("reach:returned:" + op)
    wf = M.wellformed(sr)
    if wf:
        ctx.violation("%s:ill-formed-result" % op, "%s returned an ill-formed contract (%s): %s" % (op, wf, sr), case)
    if S(sr["in"]) != S(ins) or S(sr["out"]) != S(outs):
        ctx.violation("%s:wrong-interface" % op, "%s returned interface in=%s out=%s; the algebra prescribes in=%s "
                      "out=%s" % (op, sr["in"], sr["out"], sorted(ins), sorted(outs)), case)
    if len(INV["broken"]) > before:
        why, snapc = INV["broken"][before]
        ctx.violation("%s:invariant-broken" % op, "class invariant broken during %s: %s (%s)" % (op, why, snapc), case)


def content(ins: List[str], outs: List[str], constrained: List[str]) -> Dict[str, Any]:
    """Deterministic contents that let eliminations succeed: boxed constrained inputs, outputs tracking an input."""
    a = []
    for v in constrained:
        a += [gen.T({v: 1.0}, 4.0), gen.T({v: -1.0}, 4.0)]
    g = []
    for k, o in enumerate(outs):
        if ins:
            i = ins[k % len(ins)]
            g += [gen.T({o: 1.0, i: -1.0}, 1.0), gen.T({o: -1.0, i: 1.0}, 1.0)]
        else:
            g += [gen.T({o: 1.0}, 1.0), gen.T({o: -1.0}, 1.0)]
    return {"in": list(ins), "out": list(outs), "a": a, "g": g}


def run_topology(ctx: Ctx, case: Dict[str, Any]) -> None:  # noqa: C901
    """One pair of role assignments; compose / quotient / merge with the requested options."""
    V = case["vars"]
    r1, r2 = case["r1"], case["r2"]
    i1 = [v for v, r in zip(V, r1) if r == "i"]
    o1 = [v for v, r in zip(V, r1) if r == "o"]
    i2 = [v for v, r in zip(V, r2) if r == "i"]
    o2 = [v for v, r in zip(V, r2) if r == "o"]
    con1 = [v for v in i1 if v in case["constrained"]]
    con2 = [v for v in i2 if v in case["constrained"]]
    n1, n2 = content(i1, o1, con1), content(i2, o2, con2)
    try:
        c1, c2 = P.mk_contract(n1, True), P.mk_contract(n2, True)
    except ValueError:
        ctx.count("gen:construction-rejected")
        ctx.case_done(case, False)
        return
    s1, s2 = X.snap_contract(c1), X.snap_contract(c2)
    op = case["op"]
    opt = case.get("option") or []
    if op == "compose":
        rj, ins, outs = prescribe_compose(s1, s2, opt)
        judge_op(ctx, "compose", case, rj, ins, outs, lambda: c1.compose(c2, list(opt)))
    elif op == "quotient":
        rj, ins, outs = prescribe_quotient(s1, s2, opt)
        judge_op(ctx, "quotient", case, rj, ins, outs, lambda: c1.quotient(c2, [P.mk_var(v) for v in opt]))
    else:
        rj, ins, outs = prescribe_merge(s1, s2)
        judge_op(ctx, "merge", case, rj, ins, outs, lambda: c1.merge(c2))
    sample = None
    if len(ctx.samples) < 3 and ctx.rng.random() < 0.01:
        sample = {"case": case}
    ctx.case_done(case, True, sample)


ROLES = "-io"


def topology_cases(nvars: int, thorough: bool):
    V = ["v%d" % k for k in range(1, nvars + 1)]
    for r1 in itertools.product(ROLES, repeat=nvars):
        for r2 in itertools.product(ROLES, repeat=nvars):
            for constrained in ([], V):
                for opt in [[]] + [[v] for v in V]:
                    yield {"kind": "topology", "vars": V, "r1": "".join(r1), "r2": "".join(r2), "op": "compose",
                           "option": opt, "constrained": constrained}
                    yield {"kind": "topology", "vars": V, "r1": "".join(r1), "r2": "".join(r2), "op": "quotient",
                           "option": opt, "constrained": constrained}
                yield {"kind": "topology", "vars": V, "r1": "".join(r1), "r2": "".join(r2), "op": "merge",
                       "option": [], "constrained": constrained}


def run_constructor(ctx: Ctx, case: Dict[str, Any]) -> None:
    n = case["contract"]
    expect = case["expect"]
    before = len(INV["broken"])
    try:
        c = P.mk_contract(n, case.get("simplify", True))
        outcome = "returned"
    except Exception as e:  # noqa: BLE001
        c = e
        outcome = type(e).__name__
    ctx.count("constructor:%s:%s" % (case["fault"], outcome))
    if expect == "reject":
        if outcome != "IncompatibleArgsError":
            ctx.violation("constructor:not-rejected:" + case["fault"],
                          "constructor given %s (%s) %s" % (n, case["fault"], "returned" if outcome == "returned"
                                                              else "raised " + outcome), case)
    elif outcome == "returned":
        sr = X.snap_contract(c)
        wf = M.wellformed(sr)
        if wf:
            ctx.violation("constructor:ill-formed-result", "constructor returned ill-formed %s: %s" % (sr, wf), case)
        if sr["in"] != n["in"] or sr["out"] != n["out"]:
            ctx.violation("constructor:wrong-interface", "constructor changed the interface %s -> %s" % (n, sr), case)
    if len(INV["broken"]) > before:
        ctx.violation("constructor:invariant-broken", "class invariant broken: %s" % (INV["broken"][before],), case)
    ctx.case_done(case, True)


def constructor_case(rng) -> Dict[str, Any]:
    style = rng.choice(["int", "dyadic"])
    ins = ["i1", "i2"][: rng.randint(1, 2)]
    outs = ["o1", "o2"][: rng.randint(1, 2)]
    c = gen.rcontract(rng, ins, outs, style, bounded=True, gain=True)
    fault = rng.choice(["none", "dup-input", "dup-output", "overlap", "assumption-on-output", "assumption-on-foreign",
                        "guarantee-on-foreign"])
    expect = "reject"
    if fault == "none":
        expect = "accept"
    elif fault == "dup-input":
        c["in"] = c["in"] + [c["in"][0]]
    elif fault == "dup-output":
        c["out"] = c["out"] + [c["out"][-1]]
    elif fault == "overlap":
        c["out"] = c["out"] + [c["in"][0]]
    elif fault == "assumption-on-output":
        c["a"] = c["a"] + [gen.T({outs[0]: 1.0}, 3.0)]
    elif fault == "assumption-on-foreign":
        c["a"] = c["a"] + [gen.T({"zz": 1.0, ins[0]: 1.0}, 3.0)]
    else:
        c["g"] = c["g"] + [gen.T({"zz": 1.0, outs[0]: 1.0}, 30.0)]
    return {"kind": "constructor", "fault": fault, "expect": expect, "contract": c, "simplify": rng.random() < 0.7}


def run_rename(ctx: Ctx, case: Dict[str, Any]) -> None:
    try:
        c = P.mk_contract(case["contract"], True)
    except ValueError:
        ctx.case_done(case, False)
        return
    s = X.snap_contract(c)
    rj, ins, outs = prescribe_rename(s, case["src"], case["dst"])
    judge_op(ctx, "rename", case, rj, S(ins), S(outs),
             lambda: c.rename_variable(P.mk_var(case["src"]), P.mk_var(case["dst"])))
    judge_op(ctx, "copy", case, None, S(s["in"]), S(s["out"]), lambda: c.copy())
    ctx.case_done(case, True)


def rename_case(rng) -> Dict[str, Any]:
    style = rng.choice(["int", "dyadic"])
    ins = ["i1", "i2"][: rng.randint(1, 2)]
    outs = ["o1", "o2"][: rng.randint(1, 2)]
    c = gen.rcontract(rng, ins, outs, style, bounded=True)
    names = ins + outs + ["fresh", "absent"]
    return {"kind": "rename", "contract": c, "src": rng.choice(names), "dst": rng.choice(ins + outs + ["fresh"])}


def run_random_pair(ctx: Ctx, case: Dict[str, Any]) -> None:
    """Arbitrary contents (C01 / C02 / C08 families) through the same interface oracle."""
    try:
        c1, c2 = P.mk_contract(case["c1"], True), P.mk_contract(case["c2"], True)
    except ValueError:
        ctx.case_done(case, False)
        return
    s1, s2 = X.snap_contract(c1), X.snap_contract(c2)
    keep = list(case.get("keep") or [])
    rj, ins, outs = prescribe_compose(s1, s2, keep)
    kw = {}
    if case.get("order") is not None:
        kw["tactics_order"] = list(case["order"])
    judge_op(ctx, "compose", case, rj, ins, outs, lambda: c1.compose_tactics(c2, keep, case.get("simplify", True),
                                                                               **kw))
    addl = list(case.get("addl") or [])
    rj, ins, outs = prescribe_quotient(s1, s2, addl)
    judge_op(ctx, "quotient", case, rj, ins, outs,
             lambda: c1.quotient_tactics(c2, [P.mk_var(v) for v in addl], case.get("simplify", True), **kw))
    rj, ins, outs = prescribe_merge(s1, s2)
    judge_op(ctx, "merge", case, rj, ins, outs, lambda: c1.merge(c2))
    # refinement across different interfaces must be refused
    if S(s1["in"]) != S(s2["in"]) or S(s1["out"]) != S(s2["out"]):
        try:
            c1.refines(c2)
            out = "returned"
        except Exception as e:  # noqa: BLE001
            out = type(e).__name__
        ctx.count("op:refines-different-interfaces:" + out)
        if out != "IncompatibleArgsError":
            ctx.violation("refines:not-rejected:different-interfaces",
                          "refines across different interfaces %s" % ("returned" if out == "returned" else
                                                                        "raised " + out), case)
    # the same constraints over an interface widened by one variable that nothing mentions: still a different
    # interface, whatever the constraint lists look like
    if ctx.rng.random() < 0.3:
        wide = dict(s1)
        key = ctx.rng.choice(["in", "out"])
        wide[key] = list(s1[key]) + ["unused_zz"]
        try:
            cw = P.mk_contract(wide, False)
            for a, b, tag in ((c1, cw, "narrow<=wide"), (cw, c1, "wide<=narrow")):
                try:
                    a.refines(b)
                    out = "returned"
                except Exception as e:  # noqa: BLE001
                    out = type(e).__name__
                ctx.count("op:refines-widened-interface:" + out)
                if out != "IncompatibleArgsError":
                    ctx.violation("refines:not-rejected:different-interfaces",
                                  "refines between identical constraint lists over interfaces %s/%s and %s/%s (%s) %s"
                                  % (s1["in"], s1["out"], wide["in"], wide["out"], tag,
                                     "returned" if out == "returned" else "raised " + out), case)
        except ValueError:
            pass
    ctx.case_done(case, True)


def random_pair_case(rng) -> Dict[str, Any]:
    r = rng.random()
    if r < 0.5:
        case = gen.compose_case(rng)
    elif r < 0.8:
        q = gen.quotient_case(rng)
        case = {"c1": q["top"], "c2": q["divisor"], "keep": [], "addl": q["additional_inputs"],
                "simplify": q["simplify"], "order": q["order"]}
    else:
        m = gen.merge_case(rng)
        case = {"c1": m["c1"], "c2": m["c2"], "keep": [], "simplify": True, "order": None}
    if "addl" not in case and rng.random() < 0.3:
        case["addl"] = [rng.choice(case["c1"]["in"] + case["c2"]["out"] + ["zz"])] if (
            case["c1"]["in"] + case["c2"]["out"]) else []
    case["kind"] = "random_pair"
    return case


def feedback_case(rng) -> Dict[str, Any]:
    """A loop x -> y -> x in which an assumption of one side constrains the variable the other side drives (the
    composition must be refused as feedback, whatever the contents - also when the guarantees contradict each other)."""
    unsat = rng.random() < 0.6
    d = 1.0 if unsat else 0.0
    c1 = {"in": ["y"], "out": ["x"], "a": [], "g": [gen.T({"x": 1.0, "y": -1.0}, d), gen.T({"x": -1.0, "y": 1.0}, -d)]}
    c2 = {"in": ["x"], "out": ["y"], "a": [], "g": [gen.T({"y": 1.0, "x": -1.0}, d), gen.T({"y": -1.0, "x": 1.0}, -d)]}
    if rng.random() < 0.3:
        c1["in"].append("i1")
        c1["g"].append(gen.T({"x": 1.0, "i1": -1.0}, 3.0))
    who = rng.choice(["first", "second", "both"])
    if who in ("first", "both"):
        c1["a"] = [gen.T({"y": rng.choice([1.0, -1.0])}, float(rng.randint(2, 6)))]
    if who in ("second", "both"):
        c2["a"] = [gen.T({"x": rng.choice([1.0, -1.0])}, float(rng.randint(2, 6)))]
    if rng.random() < 0.5:
        c1, c2 = c2, c1
    return {"kind": "random_pair", "family": "feedback", "c1": c1, "c2": c2, "keep": [], "simplify": rng.random() < 0.7,
            "order": gen.rorder(rng), "addl": []}


def run_case(ctx: Ctx, case: Dict[str, Any]) -> None:
    install_invariant()
    k = case.get("kind")
    if k == "topology":
        run_topology(ctx, case)
    elif k == "constructor":
        run_constructor(ctx, case)
    elif k == "rename":
        run_rename(ctx, case)
    else:
        run_random_pair(ctx, case)
    ctx.counters["invariant_evaluations"] = INV["evaluations"]


def blend_case(rng) -> Dict[str, Any]:
    r = rng.random()
    if r < 0.08:
        return feedback_case(rng)
    if r < 0.3:
        return constructor_case(rng)
    if r < 0.5:
        return rename_case(rng)
    return random_pair_case(rng)


def run(ctx: Ctx) -> None:
    if not install_invariant():
        ctx.monitor_error("icontract could not be attached to IoContract")
    # E: all role assignments of 4 variables (quick: a seed-rotated 1/6 of the option grid; thorough: all,
    #    plus all assignments of 5 variables for merge / default compose / default quotient)
    stride = 6 if ctx.quick() else 1
    off = ctx.seed % stride
    k = 0
    for idx, case in enumerate(topology_cases(4, not ctx.quick())):
        if idx % stride != off:
            continue
        k += 1
        if ctx.mine(k):
            run_case(ctx, case)
            ctx.count("topology4_cases")
        if k % 64 == 0 and ctx.out_of_time():
            break
    if not ctx.quick():
        V = ["v%d" % j for j in range(1, 6)]
        k = 0
        for r1 in itertools.product(ROLES, repeat=5):
            for r2 in itertools.product(ROLES, repeat=5):
                k += 1
                if not ctx.mine(k):
                    continue
                for op in ("compose", "quotient", "merge"):
                    run_case(ctx, {"kind": "topology", "vars": V, "r1": "".join(r1), "r2": "".join(r2), "op": op,
                                   "option": [], "constrained": V if (k % 2) else []})
                    ctx.count("topology5_cases")
            if ctx.out_of_time():
                break
    else:
        V = ["v%d" % j for j in range(1, 6)]
        for _ in range(ctx.n(3000, 0)):
            case = {"kind": "topology", "vars": V, "r1": "".join(ctx.rng.choice(ROLES) for _ in V),
                    "r2": "".join(ctx.rng.choice(ROLES) for _ in V), "op": ctx.rng.choice(["compose", "quotient",
                                                                                            "merge"]),
                    "option": [ctx.rng.choice(V)] if ctx.rng.random() < 0.4 else [],
                    "constrained": ctx.rng.sample(V, ctx.rng.randint(0, 5))}
            run_case(ctx, case)
            ctx.count("topology5_cases")
    for _ in range(ctx.n(3000, 40000)):
        run_case(ctx, constructor_case(ctx.rng))
    for _ in range(ctx.n(3000, 40000)):
        run_case(ctx, rename_case(ctx.rng))
    for _ in range(ctx.n(1200, 12000)):
        run_case(ctx, feedback_case(ctx.rng))
        ctx.count("feedback_cases")
    for _ in range(ctx.n(4000, 60000)):
        if ctx.out_of_time():
            break
        run_case(ctx, random_pair_case(ctx.rng))


def replay(ctx: Ctx, case: Dict[str, Any]) -> None:
    run_case(ctx, case)
