"""C02 - the quotient composed with the divisor refines the dividend."""
from __future__ import annotations

from typing import Any, Dict, List, Optional

from pvm import corpus, exact as X
from pvm import gen, monitors as M
from pvm.core import Ctx
from pvm import probes as P

PROP = "C02"

_rec = None


def recorder() -> P.Recorder:
    global _rec
    if _rec is None:
        _rec = P.Recorder()
        P.attach_l1(_rec)
        P.attach_l2(_rec, ["elim_vars_by_refining", "elim_vars_by_relaxing", "refines"])
        P.attach_l3(_rec, ioc=["quotient_tactics"], pic=[])
    return _rec


def build(ctx: Ctx, c: Dict[str, Any]) -> Optional[Any]:
    try:
        return P.mk_contract(c, simplify=True)
    except ValueError:
        ctx.count("gen:operand-construction-rejected")
        return None


def run_case(ctx: Ctx, case: Dict[str, Any]) -> None:  # noqa: C901
    rec = recorder()
    rec.reset()
    rec.enabled = False
    divisor = build(ctx, case["divisor"])
    top = None
    fam = case.get("family", "?")
    if divisor is not None:
        if fam == "hidden_partner":
            partner = build(ctx, case["partner"])
            if partner is not None:
                try:
                    top = divisor.compose(partner) if case.get("shape") != "second" else partner.compose(divisor)
                    ctx.count("gen:dividend-built-by-composition")
                except Exception:  # noqa: BLE001
                    top = None
                    ctx.count("gen:hidden-partner-composition-failed")
        if top is None:
            top = build(ctx, case["top"])
    rec.enabled = True
    if divisor is None or top is None:
        ctx.case_done(case, False)
        return
    st, sd = X.snap_contract(top), X.snap_contract(divisor)
    kw: Dict[str, Any] = {}
    if case.get("order") is not None:
        kw["tactics_order"] = list(case["order"])
    addl = [P.mk_var(v) for v in case.get("additional_inputs") or []]
    try:
        res = top.quotient_tactics(divisor, addl, case.get("simplify", True), **kw)
        outcome = "ret"
    except Exception as e:  # noqa: BLE001
        res = e
        outcome = "raise"
    ev_top = None
    for ev in rec.roots:
        if ev.op == "IoContract.quotient_tactics":
            ev_top = ev
    # which branches ran (from the direct children of the quotient event)
    if ev_top is not None:
        kids = ev_top.children
        first_ref = next((k for k in kids if k.op == "PTL.refines"), None)
        if first_ref is not None and first_ref.out == "ret":
            ctx.count("reach:assumptions-refine-divisor=%s" % bool(first_ref.res))
        refs = [k for k in kids if k.op == "PTL.elim_vars_by_refining"]
        for i, k in enumerate(refs[:2]):
            if k.out == "raise" and k.exc == "ValueError":
                ctx.count("reach:fallback-%d-taken" % (i + 1))
    nontrivial = False
    sample = None
    if outcome == "raise":
        en = type(res).__name__
        ctx.count("outcome:%s:%s" % (fam, en))
        if not isinstance(res, ValueError):
            ctx.count("undocumented-exception(C14):%s@%s" % (en, P.exc_origin(res)))
        elif en == "IncompatibleArgsError":
            msg = str(res)
            ctx.count("reach:rejected:" + ("eliminate" if "Could not eliminate" in msg else
                                           "additional-inputs" if "additional inputs" in msg else
                                           "io" if "incompatible IO" in msg else "other"))
    else:
        try:
            sq = X.snap_contract(res[0])
        except Exception as e:  # noqa: BLE001
            ctx.violation("result-not-a-contract", "quotient returned %r (%s)" % (res, e), case)
            ctx.case_done(case, False)
            return
        ctx.count("outcome:%s:returned" % fam)
        ctx.count("reach:returned:family:" + fam)
        ctx.count("reach:returned:simplify=%s" % bool(case.get("simplify", True)))
        ctx.count("reach:returned:additional_inputs=%s" % bool(addl))
        used = sorted(set(M.tactics_accepted(ev_top))) if ev_top is not None else []
        for k in used:
            ctx.count("reach:returned:tactic%d" % k)
        nontrivial = True
        r, w = M.quotient_obligation(st, sd, sq)
        if r == "unknown":
            ctx.inconclusive_case()
        elif r == "sat":
            mech = (M.attribute_tactics(ev_top) if ev_top is not None else None) or "algebra"
            ctx.violation(mech, "quotient of %s by %s (additional_inputs=%s simplify=%s order=%s) returned %s: at the "
                          "witness the dividend's assumptions hold and divisor and quotient honour their contracts, "
                          "yet an assumption of one of them or a guarantee of the dividend is violated" % (
                              st, sd, case.get("additional_inputs"), case.get("simplify"), case.get("order"), sq),
                          case, w)
        wf = M.wellformed(sq)
        if wf:
            ctx.violation("ill-formed-result", "quotient result is ill formed: %s" % wf, case)
        if len(ctx.samples) < 3:
            sample = {"case": {k: v for k, v in case.items() if k != "partner"}, "dividend": st, "result": sq,
                      "tactics_accepted": used}
    if ev_top is not None:
        for f in M.purity_findings(ev_top):
            ctx.violation(f[0], f[1], case)
    ctx.case_done(case, nontrivial, sample)


def corpus_cases() -> List[Dict[str, Any]]:
    out = []
    orders = [None, [1], [2], [3], [4], [5], [5, 4, 3, 2, 1]]
    for entry in corpus.load():
        cs = entry["contracts"]
        if "quotient" not in entry["file"] or len(cs) < 2:
            continue
        for order in orders:
            for simp in (True, False):
                out.append({"family": "corpus", "file": entry["file"], "top": cs[0], "divisor": cs[1],
                            "additional_inputs": [], "simplify": simp, "order": order})
    return out


def run(ctx: Ctx) -> None:
    for idx, case in enumerate(corpus_cases()):
        if ctx.mine(idx):
            run_case(ctx, case)
            ctx.count("corpus_cases")
    ents = [e for e in corpus.load() if "quotient" in e["file"] and len(e["contracts"]) >= 2]
    for _ in range(ctx.n(400, 8000)):
        if not ents or ctx.out_of_time():
            break
        e = ctx.rng.choice(ents)
        case = {"family": "corpus-perturbed", "file": e["file"], "top": corpus.perturb(ctx.rng, e["contracts"][0]),
                "divisor": corpus.perturb(ctx.rng, e["contracts"][1]), "additional_inputs": [],
                "simplify": ctx.rng.random() < 0.6, "order": gen.rorder(ctx.rng)}
        run_case(ctx, case)
    import random

    r = random.Random(4321 + ctx.shard)
    for _ in range(60):
        run_case(ctx, gen.quotient_case(r))
    # the elimination families of C04 dressed as quotients (eliminated variables = inputs shared with the divisor)
    for _ in range(ctx.n(2500, 40000)):
        if ctx.out_of_time():
            break
        run_case(ctx, gen.quotient_from_elim(ctx.rng))
    for _ in range(ctx.n(7000, 100000)):
        if ctx.out_of_time():
            break
        run_case(ctx, gen.quotient_case(ctx.rng))


def replay(ctx: Ctx, case: Dict[str, Any]) -> None:
    run_case(ctx, case)


def blend_case(rng) -> Dict[str, Any]:
    return gen.quotient_case(rng)
