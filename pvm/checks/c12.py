"""C12 - optimisation over a contract returns the true optimum, None iff unbounded, ValueError iff empty."""
from __future__ import annotations

from fractions import Fraction
from typing import Any, Dict, List, Optional

from pvm import exact as X
from pvm import gen
from pvm.core import Ctx
from pvm import probes as P

PROP = "C12"

_rec = None


def recorder() -> P.Recorder:
    global _rec
    if _rec is None:
        _rec = P.Recorder()
        P.attach_l0(_rec)
        P.attach_l2(_rec, ["optimize"])
    return _rec


def relax(tl: List[Dict[str, Any]], rel: float) -> List[Dict[str, Any]]:
    return [{"c": t["c"], "k": t["k"] + rel * (1 + abs(t["k"]))} for t in tl]


def objective_string(rng, coef: Dict[str, int]) -> str:
    parts = []
    for i, (v, k) in enumerate(coef.items()):
        mag = abs(k)
        body = v if mag == 1 and rng.random() < 0.7 else rng.choice(["%d%s", "%d %s", "%d*%s", "%d.0 %s"]) % (mag, v)
        if i == 0:
            parts.append(("-" if k < 0 else "") + body)
        else:
            parts.append((" - " if k < 0 else " + ") + body)
    return "".join(parts)


def truth(constraints: List[Dict[str, Any]], coef: Dict[str, int], maximize: bool) -> Any:
    """'infeasible' | 'band' | 'unbounded' | Fraction | 'unknown'."""
    f = X.feasible(constraints)
    if f == "unknown":
        return "unknown"
    if f == "unsat":
        # demanded only when infeasible with margin
        return "infeasible" if X.feasible(relax(constraints, 1e-3)) == "unsat" else "band"
    kind, val = X.lp_opt(constraints, {v: float(k) for v, k in coef.items()}, maximize)
    if kind == "opt":
        return val
    if kind == "unbounded":
        return "unbounded"
    if kind == "infeasible":
        return "band"
    return "unknown"


def lp_mechanism(ev: Optional[P.Event], want: Any, got: Any) -> str:
    status = None
    if ev is not None:
        lps = [e for e in ev.walk() if e.op == "linprog" and e.out == "ret"]
        if lps:
            try:
                status = lps[0].res["LP"]["status"]
            except Exception:  # noqa: BLE001
                status = None
    w = want if isinstance(want, str) else "finite"
    g = "None" if got is None else (got if isinstance(got, str) else "value")
    if status == 2 and w in ("unbounded", "finite"):
        return "linprog-misreport(status=2,feasible):want-%s-got-%s" % (w, g)
    return "logic:want-%s-got-%s" % (w, g)


def run_case(ctx: Ctx, case: Dict[str, Any]) -> None:  # noqa: C901
    if "sequence" in case:
        # several questions in one process, one after the other; a violation keeps the whole history for the replay
        before = len(ctx.violations)
        for sub in case["sequence"]:
            run_case(ctx, sub)
        for v in ctx.violations[before:]:
            v["case"] = case
        ctx.count("sequences")
        return
    rec = recorder()
    rec.reset()
    rec.enabled = False
    try:
        c = P.mk_contract(case["contract"], simplify=case.get("simplify", False))
    except ValueError:
        ctx.count("gen:construction-rejected")
        ctx.case_done(case, False)
        return
    rec.enabled = True
    sc = X.snap_contract(c)
    allc = sc["a"] + sc["g"]
    coef = case["objective"]
    results = []
    if case.get("bounds"):
        var = case["bounds"]
        try:
            got: Any = c.get_variable_bounds(var)
        except Exception as e:  # noqa: BLE001
            got = e
        ctx.count("events:get_variable_bounds")
        lo_t = truth(allc, {var: 1}, False)
        hi_t = truth(allc, {var: 1}, True)
        if isinstance(got, Exception):
            results.append((lo_t, "ValueError" if isinstance(got, ValueError) else type(got).__name__, got, "min/max " + var))
        else:
            results.append((lo_t, got[0], None, "min " + var))
            results.append((hi_t, got[1], None, "max " + var))
            # every behaviour lies within the bounds: the exact optimum already is the tightest statement
    else:
        expr = case["expr"]
        try:
            got = c.optimize(expr, maximize=case["maximize"])
        except Exception as e:  # noqa: BLE001
            got = e
        ctx.count("events:optimize")
        t = truth(allc, coef, case["maximize"])
        if isinstance(got, Exception):
            results.append((t, "ValueError" if isinstance(got, ValueError) else type(got).__name__, got,
                            ("max " if case["maximize"] else "min ") + expr))
        else:
            results.append((t, got, None, ("max " if case["maximize"] else "min ") + expr))
    top = rec.roots[0] if rec.roots else None
    nontrivial = False
    for want, got, exc, what in results:
        if want == "unknown":
            ctx.inconclusive_case()
            continue
        cls = want if isinstance(want, str) else "finite"
        ctx.count("truth:" + cls)
        if want == "band":
            continue
        nontrivial = True
        ok = True
        if isinstance(got, str) and got not in ("ValueError",):
            # the type of the exception is C14's business, but an exception is also the wrong *outcome* here
            ctx.count("undocumented-exception(C14):%s" % got)
            ctx.violation("logic:want-%s-got-%s" % (cls, got), "%s over %s raised %s; the exact answer is %s" % (
                what, X.fmt_list(allc), got, want if isinstance(want, str) else float(want)), case)
            continue
        if want == "infeasible":
            ok = got == "ValueError"
        elif want == "unbounded":
            ok = got is None
        else:
            if isinstance(got, (int, float)) and not isinstance(got, bool):
                ok = abs(Fraction(float(got)) - want) <= Fraction(1e-6) * (1 + abs(want))
            else:
                ok = False
        if ok:
            ctx.count("agree:" + cls)
        if not ok:
            ctx.violation(lp_mechanism(top, want, got),
                          "%s over %s returned %r; the exact answer is %s" % (
                              what, X.fmt_list(allc), got, want if isinstance(want, str) else float(want)), case)
    sample = None
    if len(ctx.samples) < 3 and results and not isinstance(results[0][0], str):
        sample = {"case": case, "returned": results[0][1], "exact": str(results[0][0])}
    ctx.case_done(case, nontrivial, sample)


# half-bounded strips on which HiGHS' presolve reports a feasible unbounded LP as infeasible
CORE = [
    {"contract": {"in": ["i1", "i2"], "out": ["o1"], "a": [gen.T({"i1": 2}, 1)],
                  "g": [gen.T({"i1": 1, "i2": 2, "o1": 3}, 5), gen.T({"i2": -1, "o1": -2}, -2),
                        gen.T({"i1": -2, "o1": -2}, -4)]},
     "objective": {"o1": -3}, "expr": "-3 o1", "maximize": True},
    {"contract": {"in": ["i1", "i2"], "out": ["o1"], "a": [gen.T({"i1": 2}, 1)],
                  "g": [gen.T({"i1": 1, "i2": 2, "o1": 3}, 5), gen.T({"i2": -1, "o1": -2}, -2),
                        gen.T({"i1": -2, "o1": -2}, -4)]},
     "objective": {"o1": -3}, "expr": "-3 o1", "maximize": False},
]


EXPONENT_LIKE = [("y", "e1y"), ("x", "E2x"), ("b", "e1b"), ("o1", "e2o1")]


def spelling_sequence(rng) -> Dict[str, Any]:
    """Objectives whose texts differ only in white space or in the multiplication sign and still mean different
    things: '3e1y' is 30*y, '3 e1y' and '3*e1y' are 3*e1y.  Asked one after the other on the same contract."""
    plain, tricky = rng.choice(EXPONENT_LIKE)
    ins, outs = ["i1"], [plain, tricky]
    c = gen.rcontract(rng, ins, outs, "int", bounded=rng.random() < 0.7)
    m = rng.choice([1, 2, 3])
    digit = tricky[1]
    scale = 10 ** int(digit)
    sign = rng.choice(["", "-"])
    f = -1 if sign else 1
    asks = [("%s%d%s" % (sign, m, tricky), {plain: f * m * scale}),          # glued: a number with an exponent
            ("%s%d %s" % (sign, m, tricky), {tricky: f * m}),
            ("%s%d*%s" % (sign, m, tricky), {tricky: f * m}),
            ("%s%d %s" % (sign, m * scale, plain), {plain: f * m * scale})]
    rng.shuffle(asks)
    mx = rng.random() < 0.5
    return {"sequence": [{"contract": c, "simplify": True, "objective": coef, "expr": expr,
                          "maximize": mx if rng.random() < 0.8 else not mx} for expr, coef in asks[: rng.randint(2, 4)]]}


def near_equal_bounds(rng) -> Dict[str, Any]:
    """An input bounded by the assumptions and, a few 1e-6 (relative) tighter, by the guarantees; the objective runs
    along that variable, so the optimum is the tighter bound - 5 to 50 times further away than the 1e-6 of the reading."""
    ins, outs = ["i1"], ["o1"]
    c = gen.rcontract(rng, ins, outs, "int", bounded=True)
    kk = float(rng.choice([100, 50, 1000, 12]))
    sg = rng.choice([1.0, -1.0])
    rel = rng.choice([5e-6, 1e-5, 5e-5])
    c["a"] = [t for t in c["a"] if set(t["c"]) != {"i1"}] + [gen.T({"i1": sg}, kk), gen.T({"i1": -sg}, kk)]
    c["g"] = c["g"] + [gen.T({"i1": sg}, kk * (1 - rel))]
    if rng.random() < 0.5:
        c["g"].reverse()
    m = rng.choice([1, 2, 3])
    coef = {"i1": int(sg) * m}
    return {"contract": c, "simplify": False, "objective": coef, "expr": objective_string(rng, coef),
            "maximize": True}


def gen_case(rng) -> Dict[str, Any]:
    if rng.random() < 0.05:
        return spelling_sequence(rng)
    if rng.random() < 0.04:
        return near_equal_bounds(rng)
    style = rng.choice(["int", "int", "dyadic"])
    ins = ["i1", "i2"][: rng.randint(1, 2)]
    outs = ["o1", "o2", "o3"][: rng.randint(1, 3)]
    r = rng.random()
    c = gen.rcontract(rng, ins, outs, style, bounded=rng.random() < 0.45)
    simplify = True
    if r < 0.2:
        # unsatisfiable contract (built without simplification so that the constructor accepts it)
        t = gen.rterm(rng, ins + outs, 2, style, must=outs)
        c["g"] += [t, {"c": {v: -x for v, x in t["c"].items()}, "k": -(t["k"] + 1 + abs(gen.const(rng, style, 0, 3)))}]
        simplify = False
    elif r < 0.3:
        simplify = False
    vs = ins + outs + (["free1"] if rng.random() < 0.1 else [])
    if "free1" in vs:
        c["out"] = c["out"] + ["free1"]
    sel = rng.sample(vs, rng.randint(1, min(3, len(vs))))
    coef = {v: rng.choice([-3, -2, -1, 1, 2, 3]) for v in sel}
    case = {"contract": c, "simplify": simplify, "objective": coef, "expr": objective_string(rng, coef),
            "maximize": rng.random() < 0.5}
    if rng.random() < 0.2:
        case["bounds"] = rng.choice(ins + outs)
    return case


def run(ctx: Ctx) -> None:
    for k, case in enumerate(CORE):
        if ctx.mine(k):
            run_case(ctx, dict(case))
            ctx.count("core_cases")
    for _ in range(ctx.n(16000, 300000)):
        if ctx.out_of_time():
            break
        run_case(ctx, gen_case(ctx.rng))


def replay(ctx: Ctx, case: Dict[str, Any]) -> None:
    run_case(ctx, case)


def blend_case(rng) -> Dict[str, Any]:
    return gen_case(rng)
