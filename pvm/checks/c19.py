"""C19 - equality, hashing and copying of terms, lists and contracts are coherent."""
from __future__ import annotations

import copy as _copy
from typing import Any, Callable, Dict, List, Optional, Tuple

from pvm import exact as X
from pvm import gen
from pvm.core import Ctx
from pvm import probes as P

PROP = "C19"


def safe_eq(a: Any, b: Any) -> Any:
    try:
        return bool(a == b)
    except Exception as e:  # noqa: BLE001
        return e


def safe_hash(a: Any) -> Any:
    try:
        return hash(a)
    except Exception as e:  # noqa: BLE001
        return e


def mk(kind: str, n: Any) -> Any:
    if kind == "term":
        return P.mk_term(n)
    if kind == "list":
        return P.mk_list(n)
    return P.mk_contract(n, simplify=False)


def relation(ctx: Ctx, cls: str, edit: str, a: Any, b: Any, want: Optional[bool], case: Any) -> None:
    """want: True = must be equal, False = must be unequal, None = either answer (but coherent)."""
    ab, ba = safe_eq(a, b), safe_eq(b, a)
    ctx.count("pairs:%s:%s" % (cls, edit))
    if isinstance(ab, Exception) or isinstance(ba, Exception):
        ctx.violation("%s:eq-raised" % cls, "== raised %r / %r for edit '%s'" % (ab, ba, edit), case)
        return
    if ab != ba:
        ctx.violation("%s:asymmetric" % cls, "a==b is %s but b==a is %s (edit '%s')" % (ab, ba, edit), case)
    if want is not None and ab != want:
        ctx.violation("%s:%s:%s" % (cls, edit, "equal-but-must-differ" if ab else "unequal-but-must-be-equal"),
                      "objects produced by edit '%s' compare %s" % (edit, "equal" if ab else "unequal"), case)
    if ab:
        ha, hb = safe_hash(a), safe_hash(b)
        if isinstance(ha, Exception) or isinstance(hb, Exception):
            if type(ha) is not type(hb):
                ctx.violation("%s:hash-raised" % cls, "hash raised %r / %r" % (ha, hb), case)
        elif ha != hb:
            ctx.violation("%s:%s:hash-differs-for-equal" % (cls, edit),
                          "a == b but hash(a) != hash(b) (edit '%s')" % edit, case)
        else:
            ctx.count("hash-agree:%s" % cls)


def term_edits(rng, t: Dict[str, Any]) -> List[Tuple[str, Dict[str, Any], Optional[bool]]]:
    out: List[Tuple[str, Dict[str, Any], Optional[bool]]] = []
    out.append(("identical", {"c": dict(t["c"]), "k": t["k"]}, True))
    rev = dict(reversed(list(t["c"].items())))
    out.append(("variable-order", {"c": rev, "k": t["k"]}, True))
    v = rng.choice(list(t["c"]))
    c2 = dict(t["c"])
    c2[v] = c2[v] + rng.choice([1.0, -0.5, 2.0 ** -40])
    if c2[v] != 0:
        out.append(("coefficient", {"c": c2, "k": t["k"]}, False))
    out.append(("constant", {"c": dict(t["c"]), "k": t["k"] + rng.choice([1.0, -1.0, 2.0 ** -30])}, False))
    c3 = dict(t["c"])
    c3["zq"] = 1.0
    out.append(("extra-variable", {"c": c3, "k": t["k"]}, False))
    if t["k"] == 0:
        out.append(("signed-zero-constant", {"c": dict(t["c"]), "k": -t["k"]}, True))
    return out


def run_term(ctx: Ctx, case: Dict[str, Any]) -> None:
    t = case["term"]
    a = P.mk_term(t)
    cp = a.copy()
    relation(ctx, "PolyhedralTerm", "copy", a, cp, True, case)
    if X.canon(X.snap_term(cp)) != X.canon(t) and X.canon(X.snap_term(cp)).replace("-0x0.0p+0", "0x0.0p+0") != \
            X.canon(t).replace("-0x0.0p+0", "0x0.0p+0"):
        ctx.violation("PolyhedralTerm:copy-differs", "copy of %s is %s" % (t, X.snap_term(cp)), case)
    for edit, n, want in term_edits(ctx.rng, t):
        relation(ctx, "PolyhedralTerm", edit, a, P.mk_term(n), want, case)


def list_edits(rng, tl: List[Dict[str, Any]]) -> List[Tuple[str, List[Dict[str, Any]], Optional[bool]]]:
    out: List[Tuple[str, List[Dict[str, Any]], Optional[bool]]] = []
    cp = [{"c": dict(t["c"]), "k": t["k"]} for t in tl]
    out.append(("identical", cp, True))
    if len(tl) >= 2 and X.canon(tl[0]) != X.canon(tl[1]):
        out.append(("term-order", [cp[1], cp[0]] + cp[2:], None))
    if tl:
        i = rng.randrange(len(tl))
        e = [dict(c=dict(t["c"]), k=t["k"]) for t in tl]
        e[i]["k"] += 1.0
        out.append(("one-constant", e, False))
        e2 = [dict(c=dict(t["c"]), k=t["k"]) for t in tl]
        v = rng.choice(list(e2[i]["c"]))
        e2[i]["c"][v] *= 2.0
        out.append(("one-coefficient", e2, False))
        out.append(("term-removed", cp[:i] + cp[i + 1:], False))
        for j, t in enumerate(tl):
            if t["k"] == 0:
                e3 = [dict(c=dict(t["c"]), k=t["k"]) for t in tl]
                e3[j]["k"] = -e3[j]["k"]
                out.append(("signed-zero-constant", e3, True))
                break
    out.append(("term-added", cp + [gen.T({"zq": 1.0}, 1.0)], False))
    return out


def run_list(ctx: Ctx, case: Dict[str, Any]) -> None:
    tl = case["list"]
    a = P.mk_list(tl)
    relation(ctx, "PolyhedralTermList", "copy", a, a.copy(), True, case)
    for edit, n, want in list_edits(ctx.rng, tl):
        relation(ctx, "PolyhedralTermList", edit, a, P.mk_list(n), want, case)


def contract_edits(rng, c: Dict[str, Any]) -> List[Tuple[str, Dict[str, Any], Optional[bool]]]:
    def dup(x: Dict[str, Any]) -> Dict[str, Any]:
        return {"in": list(x["in"]), "out": list(x["out"]), "a": [dict(c=dict(t["c"]), k=t["k"]) for t in x["a"]],
                "g": [dict(c=dict(t["c"]), k=t["k"]) for t in x["g"]]}

    out: List[Tuple[str, Dict[str, Any], Optional[bool]]] = [("identical", dup(c), True)]
    if len(c["in"]) >= 2:
        e = dup(c)
        e["in"] = list(reversed(e["in"]))
        out.append(("inputs-permuted", e, None))
    if len(c["out"]) >= 2:
        e = dup(c)
        e["out"] = list(reversed(e["out"]))
        out.append(("outputs-permuted", e, None))
    e = dup(c)
    e["in"] = e["in"] + ["zi"]
    out.append(("inputs-extra", e, False))
    e = dup(c)
    e["out"] = e["out"] + ["zo"]
    out.append(("outputs-extra", e, False))
    amention = {v for t in c["a"] for v in t["c"]}
    if c["in"] and c["in"][-1] not in amention:
        e = dup(c)
        v = e["in"].pop()
        e["out"] = [v] + e["out"]
        out.append(("last-input-becomes-first-output", e, False))
    movable = [v for v in c["in"] if v not in amention]
    if movable:
        e = dup(c)
        v = rng.choice(movable)
        e["in"].remove(v)
        e["out"].insert(rng.randint(0, len(e["out"])), v)
        out.append(("input-becomes-output", e, False))
    if c["out"]:
        e = dup(c)
        v = e["out"].pop(0)
        e["in"] = e["in"] + [v]
        out.append(("first-output-becomes-last-input", e, False))
    unused = [o for o in c["out"] if all(o not in t["c"] for t in c["g"])]
    if unused:
        e = dup(c)
        e["out"] = [("zz" if o == unused[0] else o) for o in e["out"]]
        out.append(("outputs-changed", e, False))
    for key, nm in (("a", "assumption"), ("g", "guarantee")):
        if c[key]:
            i = rng.randrange(len(c[key]))
            e = dup(c)
            e[key][i]["k"] += 1.0
            out.append((nm + "-constant", e, False))
            e = dup(c)
            v = rng.choice(list(e[key][i]["c"]))
            e[key][i]["c"][v] *= 2.0
            out.append((nm + "-coefficient", e, False))
            e = dup(c)
            del e[key][i]
            out.append((nm + "-removed", e, False))
            for j, t in enumerate(c[key]):
                if t["k"] == 0:
                    e = dup(c)
                    e[key][j]["k"] = -e[key][j]["k"]
                    out.append((nm + "-signed-zero-constant", e, True))
                    break
    return out


def run_contract(ctx: Ctx, case: Dict[str, Any]) -> None:
    try:
        base = P.mk_contract(case["contract"], simplify=True)
    except ValueError:
        ctx.count("gen:construction-rejected")
        return
    n = X.snap_contract(base)
    # copy of a contract built with the default simplification (small-integer / dyadic data)
    cp = base.copy()
    relation(ctx, "IoContract", "copy", base, cp, True, case)
    ncp = X.snap_contract(cp)
    if (ncp["in"], ncp["out"]) != (n["in"], n["out"]):
        ctx.violation("IoContract:copy-interface", "copy changed the interface: %s -> %s" % (n, ncp), case)
    try:
        rt = P.PolyhedralIoContract.from_dict(base.to_machine_dict(), simplify=False)
        relation(ctx, "IoContract", "machine-round-trip", base, rt, True, case)
    except Exception as e:  # noqa: BLE001
        ctx.count("round-trip-raised:%s" % type(e).__name__)
    a = P.mk_contract(n, simplify=False)
    for edit, m, want in contract_edits(ctx.rng, n):
        try:
            b = P.mk_contract(m, simplify=False)
        except ValueError:
            continue
        relation(ctx, "IoContract", edit, a, b, want, case)
    # an object that was hashed and then changed in place by its own method (IoContract.simplify): afterwards it
    # equals its fresh copy, so it must hash like it
    c = dict(n)
    if c["g"]:
        t = ctx.rng.choice(c["g"])
        c = {"in": c["in"], "out": c["out"], "a": c["a"], "g": c["g"] + [{"c": dict(t["c"]), "k": t["k"] + 1.0}]}
    try:
        m = P.mk_contract(c, simplify=False)
        safe_hash(m)
        m.simplify()
        relation(ctx, "IoContract", "hashed-then-simplified-in-place:vs-copy", m, m.copy(), True, case)
        relation(ctx, "IoContract", "hashed-then-simplified-in-place:vs-rebuilt", m,
                 P.mk_contract(X.snap_contract(m), simplify=False), True, case)
    except ValueError:
        ctx.count("in-place-simplify-raised")
    # transitivity on a triple of equal-by-construction objects
    t1, t2, t3 = P.mk_contract(n, simplify=False), base.copy(), P.mk_contract(n, simplify=False)
    e12, e23, e13 = safe_eq(t1, t2), safe_eq(t2, t3), safe_eq(t1, t3)
    ctx.count("triples")
    if e12 is True and e23 is True and e13 is not True:
        ctx.violation("IoContract:not-transitive", "a==b and b==c but a==c is %r" % e13, case)


def run_var(ctx: Ctx, case: Dict[str, Any]) -> None:
    a, b, c = P.mk_var(case["name"]), P.mk_var(case["name"]), P.mk_var(case["name"] + "x")
    relation(ctx, "Var", "identical", a, b, True, case)
    relation(ctx, "Var", "name", a, c, False, case)


def run_compound(ctx: Ctx, case: Dict[str, Any]) -> None:
    """IoContractCompound equality: interface lists compared field-wise."""
    n = case["contract"]
    try:
        def build(m: Dict[str, Any]) -> Any:
            return P.PolyhedralIoContractCompound(
                assumptions=P.NestedPolyhedra([P.mk_list(m["a"])], force_empty_intersection=True),
                guarantees=P.NestedPolyhedra([P.mk_list(m["g"])], force_empty_intersection=False),
                input_vars=[P.mk_var(v) for v in m["in"]], output_vars=[P.mk_var(v) for v in m["out"]])

        a = build(n)
        same = build(n)
        m = dict(n)
        m["out"] = n["out"] + ["zo"]
        diff_out = build(m)
        m2 = dict(n)
        m2["in"] = n["in"] + ["zi"]
        diff_in = build(m2)
    except ValueError:
        ctx.count("gen:compound-construction-rejected")
        return
    for edit, b, want in (("identical", same, True), ("outputs-extra", diff_out, False),
                          ("inputs-extra", diff_in, False)):
        ab = safe_eq(a, b)
        ctx.count("pairs:IoContractCompound:%s" % edit)
        if isinstance(ab, Exception):
            ctx.count("compound-eq-raised:%s" % type(ab).__name__)
            continue
        if ab != want:
            ctx.violation("IoContractCompound:%s:%s" % (edit, "equal-but-must-differ" if ab else
                                                        "unequal-but-must-be-equal"),
                          "compound contracts produced by edit '%s' compare %s" % (edit, ab), case)
        if safe_eq(b, a) != ab:
            ctx.violation("IoContractCompound:asymmetric", "a==b is %s, b==a differs (edit %s)" % (ab, edit), case)


def run_case(ctx: Ctx, case: Dict[str, Any]) -> None:
    k = case["kind"]
    before = len(ctx.violations)
    {"term": run_term, "list": run_list, "contract": run_contract, "var": run_var, "compound": run_compound}[k](
        ctx, case)
    sample = None
    if len(ctx.samples) < 3 and k == "contract":
        sample = {"case": case, "edits_checked": [e for e, _, _ in contract_edits(ctx.rng, case["contract"])]}
    ctx.case_done(case, True, sample)
    _ = before


def gen_case(rng) -> Dict[str, Any]:
    r = rng.random()
    style = rng.choice(["int", "int", "dyadic"])
    if r < 0.25:
        t = gen.rterm(rng, gen.VN[:4], 3, style, lo=-2, hi=2)
        return {"kind": "term", "term": t}
    if r < 0.45:
        return {"kind": "list", "list": gen.rlist(rng, gen.VN[:4], rng.randint(1, 4), 3, style, lo=-2, hi=2)}
    if r < 0.5:
        return {"kind": "var", "name": rng.choice(["x", "y1", "long_name", "a_b"])}
    ins = ["i1", "i2"][: rng.randint(1, 2)]
    outs = ["o1", "o2", "o3"][: rng.randint(1, 3)]
    c = gen.rcontract(rng, ins, outs, style)
    if rng.random() < 0.4:
        # an input the assumptions do not mention (it can change role without touching the constraints)
        keep_out = ins[-1]
        c["a"] = [t for t in c["a"] if keep_out not in t["c"]]
    if rng.random() < 0.5:
        # make zero constants likely (signed-zero edits)
        for t in c["a"] + c["g"]:
            if rng.random() < 0.4:
                t["k"] = 0.0
    if r < 0.9:
        return {"kind": "contract", "contract": c}
    return {"kind": "compound", "contract": c}


def run(ctx: Ctx) -> None:
    for _ in range(ctx.n(24000, 300000)):
        if ctx.out_of_time():
            break
        run_case(ctx, gen_case(ctx.rng))


def replay(ctx: Ctx, case: Dict[str, Any]) -> None:
    run_case(ctx, case)


def blend_case(rng) -> Dict[str, Any]:
    return gen_case(rng)
