"""C07 - simplification never changes meaning and leaves nothing redundant."""
from __future__ import annotations

from fractions import Fraction
from typing import Any, Dict, List, Optional

import z3

from pvm import exact as X
from pvm import gen, monitors as M
from pvm.core import Ctx
from pvm import probes as P

PROP = "C07"

_rec = None


def recorder() -> P.Recorder:
    global _rec
    if _rec is None:
        _rec = P.Recorder()
        P.attach_l0(_rec)
        P.attach_l2(_rec, ["simplify"])
        P.attach_l3(_rec, ioc=["__init__", "simplify"], pic=[])
    return _rec


def shrink(tl: List[Dict[str, Any]], rel: float) -> List[Dict[str, Any]]:
    """Interior at margin rel; variable-free rows (constant inequalities 0 <= k) involve no LP and stay exact."""
    return [{"c": t["c"], "k": t["k"] - (rel * (1 + abs(t["k"])) if any(c != 0 for c in t["c"].values()) else 0.0)}
            for t in tl]


def same_coeffs(a: Dict[str, Any], b: Dict[str, Any]) -> bool:
    ca = {v: c for v, c in a["c"].items() if c != 0}
    cb = {v: c for v, c in b["c"].items() if c != 0}
    return ca == cb


def close_const(x: float, y: float) -> bool:
    return abs(x - y) <= 1e-9 * (1 + abs(y))


def is_selection(result: List[Dict[str, Any]], source: List[Dict[str, Any]]) -> Optional[str]:
    """Each result term must be one of the source terms (multiplicities respected)."""
    pool = list(source)
    for t in result:
        hit = None
        for i, s in enumerate(pool):
            if same_coeffs(t, s) and close_const(t["k"], s["k"]):
                hit = i
                break
        if hit is None:
            return X.fmt_term(t)
        pool.pop(hit)
    return None


def judge_simplify(ctx: Ctx, ev: P.Event, case: Any, nested: bool) -> None:  # noqa: C901
    src = M._L(ev.args.get("self"))
    if src is None:
        return
    cs = ev.args.get("context")
    cx = M._L(cs) if cs is not None else []
    if cx is None:
        cx = []
    tag = "nested" if nested else "direct"
    ctx.count("events:simplify:" + tag)
    names = X.names_of(src, cx)
    if ev.out == "raise":
        ctx.count("simplify:raised:%s" % ev.exc)
        if ev.exc != "ValueError":
            return  # other exception types are C14's business
        # (iv) never for a feasible system (interior point with margin); thin systems are band
        r, w = X.check(X.box(names), X.conj(shrink(src + cx, 1e-3)))
        if r == "unknown":
            ctx.inconclusive_case()
        elif r == "sat":
            audit = M.lp_audit(ev.walk())
            ctx.violation("raise-on-feasible" + (":" + audit if audit else ""), "simplify raised ValueError for %s in "
                          "context %s, which has an interior point" % (X.fmt_list(src), X.fmt_list(cx)), case, w)
        else:
            # thin systems (feasible without an interior point, e.g. equalities): only judged through the solver
            # boundary - a ValueError drawn from a presolved solve that was never repeated is pacti's own doing
            r2, w2 = X.check(X.box(names), X.conj(src + cx))
            if r2 == "sat":
                audit = M.lp_audit(ev.walk())
                ctx.count("simplify:raise-on-thin-feasible:%s" % audit)
                if audit == "lp-retry-missing":
                    ctx.violation("raise-on-thin-feasible:lp-retry-missing", "simplify raised ValueError for %s in "
                                  "context %s, which is satisfiable, after a presolved solve that reported no optimum "
                                  "and was not repeated without presolve" % (X.fmt_list(src), X.fmt_list(cx)), case, w2)
            else:
                ctx.count("simplify:raise-justified")
        return
    res = M._L(ev.res)
    if res is None:
        ctx.violation("result-not-a-list", "simplify returned %r" % (ev.res,), case)
        return
    # (i) selection
    bad = is_selection(res, src)
    if bad is not None:
        ctx.violation("not-a-selection", "simplify(%s | %s) returned %s: the term %s is not one of the original "
                      "constraints" % (X.fmt_list(src), X.fmt_list(cx), X.fmt_list(res), bad), case)
    # the numerical reading lives inside the box |v| <= 1000: a system with no behaviour there is not judged
    feas = X.check(X.box(names), X.conj(src + cx))[0]
    if feas == "unknown":
        ctx.inconclusive_case()
        return
    if feas == "unsat":
        ctx.count("simplify:returned-on-infeasible-or-outside-the-box")
        return
    ctx.count("simplify:returned-on-feasible:" + tag)
    # (ii) meaning
    r, w = X.check(X.box(names), X.conj(cx), X.conj(res), X.anyviol(src))
    if r == "unknown":
        ctx.inconclusive_case()
    elif r == "sat":
        audit = M.lp_audit(ev.walk())
        ctx.violation("meaning-changed" + (":" + audit if audit else ""), "simplify(%s | %s) returned %s, which no "
                      "longer implies the original in the context" % (X.fmt_list(src), X.fmt_list(cx),
                                                                        X.fmt_list(res)), case, w)
    # (iii) nothing redundant with margin left
    if len(res) - len(src) < 0:
        ctx.count("simplify:dropped-something:" + tag)
    for i, t in enumerate(res):
        if not any(c != 0 for c in t["c"].values()):
            continue  # constant inequalities are not judged for redundancy
        rest = res[:i] + res[i + 1:]
        margin = X.tol_of(t["k"])
        # the hypotheses appear negatively: they get the 1e-7 slack of the numerical reading (simplify itself moves
        # constants by an ulp - b+1-1 - which can make an exactly opposite pair cross)
        r, _ = X.check(X.conj(cx, X.SLACK), X.conj(rest, X.SLACK), X.lin(t) > X.q(Fraction(t["k"]) - margin))
        if r == "unknown":
            ctx.inconclusive_case()
        elif r == "unsat":
            # mechanism: did the solver give up on one of the LPs of this call (status != 0 on its last attempt)?
            audit = M.lp_audit(ev.walk())
            mech = "redundant-term-kept" + (":" + audit if audit else "")
            ctx.violation(mech, "simplify(%s | %s) returned %s: the term %s is implied with margin by "
                          "the others and the context" % (X.fmt_list(src), X.fmt_list(cx), X.fmt_list(res),
                                                          X.fmt_term(t)), case)
            break
    if ev.mutated:
        ctx.violation("mutated-operand", "simplify modified %s" % ev.mutated, case)


def judge_contract_event(ctx: Ctx, ev: P.Event, case: Any) -> None:
    """(v) building / simplifying a contract keeps A & G."""
    if ev.out != "ret":
        return
    if ev.op.endswith("__init__"):
        a0, g0 = M._L(ev.args.get("assumptions")), M._L(ev.args.get("guarantees"))
        if not ev.args.get("simplify", True) or a0 is None or g0 is None:
            return
        after = ev.raw_args.get("self") if ev.raw_args else None
        if after is None:
            return
        try:
            sc = X.snap_contract(after)
        except Exception:  # noqa: BLE001
            return
    else:
        before = M._C(ev.args.get("self"))
        after = ev.raw_args.get("self") if ev.raw_args else None
        if before is None or after is None:
            return
        a0, g0 = before["a"], before["g"]
        sc = X.snap_contract(after)
    ctx.count("events:contract-level")
    names = X.names_of(a0, g0, sc)
    st, d, w = M.equiv_tol([], a0 + g0, sc["a"] + sc["g"], names)
    if st == "unknown":
        ctx.inconclusive_case()
    elif st == "diff":
        ctx.violation("contract-meaning-changed:" + d, "constructing/simplifying a contract from A=%s G=%s gave A=%s G=%s: "
                      "assumptions together with guarantees allow different behaviours" % (
                          X.fmt_list(a0), X.fmt_list(g0), X.fmt_list(sc["a"]), X.fmt_list(sc["g"])), case, w)
    # the guarantees are simplified against the assumptions: none of them may be implied with margin by the
    # assumptions and the other guarantees
    if X.check(X.box(names), X.conj(sc["a"]), X.conj(sc["g"]))[0] != "sat":
        return
    for i, t in enumerate(sc["g"]):
        rest = sc["g"][:i] + sc["g"][i + 1:]
        r, _ = X.check(X.conj(sc["a"], X.SLACK), X.conj(rest, X.SLACK),
                       X.lin(t) > X.q(Fraction(t["k"]) - X.tol_of(t["k"])))
        if r == "unknown":
            ctx.inconclusive_case()
        elif r == "unsat":
            ctx.violation("contract-redundant-guarantee-kept", "after %s the contract A=%s G=%s still has the guarantee "
                          "%s, which is implied with margin by the assumptions and the other guarantees" % (
                              ev.op, X.fmt_list(sc["a"]), X.fmt_list(sc["g"]), X.fmt_term(t)), case)
            break
    ctx.count("events:contract-level-irredundancy")


def run_case(ctx: Ctx, case: Dict[str, Any]) -> None:
    if case.get("family") == "core":
        # regressions on the seed-independent core are never attributed to an open known finding
        before = len(ctx.violations)
        _run_case(ctx, case)
        for v in ctx.violations[before:]:
            if not v["mechanism"].endswith(":regression-core"):
                ctx.counters["violations:" + v["mechanism"]] -= 1
                v["mechanism"] += ":regression-core"
                ctx.counters["violations:" + v["mechanism"]] += 1
        return
    _run_case(ctx, case)


def _run_case(ctx: Ctx, case: Dict[str, Any]) -> None:
    rec = recorder()
    rec.reset()
    rec.keep_raw = True
    kind = case["kind"]
    if kind == "list":
        tl = P.mk_list(case["terms"])
        cx = P.mk_list(case["ctx"]) if case.get("ctx") is not None else None
        try:
            tl.simplify(cx) if cx is not None else tl.simplify()
        except Exception:  # noqa: BLE001
            pass
        if case.get("twin"):
            # a list that prints like the first one, right after it: every call is judged against its own operands
            t2 = P.mk_list(case["twin"])
            try:
                t2.simplify(cx) if cx is not None else t2.simplify()
            except Exception:  # noqa: BLE001
                pass
            ctx.count("twin-calls")
    elif kind == "contract":
        try:
            c = P.mk_contract(case["contract"], simplify=case.get("at_construction", True))
            if not case.get("at_construction", True):
                c.simplify()
        except Exception:  # noqa: BLE001
            pass
    else:  # compose: simplifications nested in the algebra
        try:
            c1 = P.mk_contract(case["c1"], True)
            c2 = P.mk_contract(case["c2"], True)
            c1.compose(c2)
        except Exception:  # noqa: BLE001
            pass
    n = 0
    for ev in rec.events():
        if ev.op == "PTL.simplify":
            judge_simplify(ctx, ev, case, ev.parent is not None)
            n += 1
        elif ev.op in ("IoContract.__init__", "IoContract.simplify"):
            judge_contract_event(ctx, ev, case)
    ctx.count("family:" + case.get("family", kind))
    sample = None
    if len(ctx.samples) < 3 and kind == "list" and rec.roots and rec.roots[0].out == "ret":
        sample = {"case": case, "result": rec.roots[0].res}
    ctx.case_done(case, n > 0, sample)


def list_case(rng) -> Dict[str, Any]:  # noqa: C901
    style = gen.pick_style(rng) if rng.random() < 0.85 else "wide"
    fam = rng.choice(["random", "duplicates", "scalings", "combinations", "via_context", "tight", "infeasible",
                      "random", "near_tight", "no_context", "near_ctx", "varfree", "equalities"])
    if fam == "varfree":
        # constant inequalities 0 <= k only (what cancelling substitutions leave behind); no LP is involved
        ks = [1.0, 0.0, -0.0, 2.5, -1.0]
        terms = [{"c": {}, "k": rng.choice(ks[:4] if rng.random() < 0.8 else ks)} for _ in range(rng.randint(1, 3))]
        cx = [{"c": {}, "k": rng.choice(ks[:4] if rng.random() < 0.8 else ks)} for _ in range(rng.randint(0, 2))]
        if rng.random() < 0.3:
            terms.append(gen.rterm(rng, gen.VN[:2], 2, "int"))
        return {"kind": "list", "family": fam, "style": "int", "terms": terms, "ctx": cx if cx or rng.random() < 0.5
                else None}
    nv = rng.randint(1, 5)
    vs = gen.VN[:nv]
    base = gen.feasible_point_list(rng, vs, rng.randint(1, 4), style)
    ctx_: Optional[List[Dict[str, Any]]] = gen.feasible_point_list(rng, vs, rng.randint(0, 3), style) \
        if rng.random() < 0.7 else None
    terms = [dict(c=dict(t["c"]), k=t["k"]) for t in base]
    if fam == "duplicates":
        for _ in range(rng.randint(1, 2)):
            t = rng.choice(terms)
            terms.insert(rng.randint(0, len(terms)), dict(c=dict(t["c"]), k=t["k"]))
    elif fam == "scalings":
        t = rng.choice(terms)
        terms.insert(rng.randint(0, len(terms)), gen.scale(t, float(rng.choice([2, 3, 0.5, 4]))))
    elif fam == "combinations" and len(terms) >= 2:
        a, b = rng.sample(terms, 2)
        s = gen.add(a, b, float(rng.choice([1, 2])), float(rng.choice([1, 0.5, 3])))
        if s is not None:
            s["k"] += rng.choice([0.0, 0.0, 1.0, 0.25])
            terms.insert(rng.randint(0, len(terms)), s)
    elif fam == "via_context":
        if ctx_ is None:
            ctx_ = []
        if terms:
            t = rng.choice(terms)
            extra = gen.rterm(rng, vs, 2, style)
            # extra + t is implied by context term `extra` and t
            ctx_.append(extra)
            s = gen.add(t, extra)
            if s is not None:
                s["k"] += rng.choice([0.0, 1.0])
                terms.append(s)
    elif fam in ("tight", "near_tight"):
        t = rng.choice(terms)
        eps = rng.choice([0.0, 1e-6, 1e-5, 1e-4, 1e-3, 1e-2, 0.5]) if fam == "near_tight" else 0.0
        terms.insert(rng.randint(0, len(terms)), dict(c=dict(t["c"]), k=t["k"] + eps))
    elif fam == "infeasible":
        t = gen.rterm(rng, vs, 2, style)
        opp = {"c": {v: -c for v, c in t["c"].items()}, "k": -t["k"] - rng.choice([1.0, 0.5, 1e-3, 2.0])}
        if ctx_ is not None and rng.random() < 0.5:
            ctx_.append(opp)
            terms.append(t)
        else:
            terms += [t, opp]
    elif fam == "no_context":
        ctx_ = None
    elif fam == "equalities":
        # exactly opposite pairs (an equality written as two inequalities), as in the repository's own contracts
        for _ in range(rng.randint(1, 2)):
            t = gen.rterm(rng, vs, 2, style if style != "int" else rng.choice(["int", "float", "decimal"]))
            pair = [t, {"c": {v: -c for v, c in t["c"].items()}, "k": -t["k"]}]
            if ctx_ is not None and rng.random() < 0.3:
                ctx_ += pair
            else:
                pos = rng.randint(0, len(terms))
                terms[pos:pos] = pair
    elif fam == "near_ctx":
        # a term that is almost, but not quite, one of the context terms (and genuinely tighter somewhere)
        if not ctx_:
            ctx_ = gen.feasible_point_list(rng, vs, rng.randint(1, 2), style)
        t = rng.choice(ctx_)
        nt = dict(c=dict(t["c"]), k=t["k"])
        v = rng.choice(list(nt["c"]))
        d = rng.choice([1e-6, 5e-6, 2e-5, 1e-4, -1e-6, -5e-6, -2e-5])
        if rng.random() < 0.7:
            nt["c"][v] = nt["c"][v] * (1 + d)
        else:
            nt["k"] = nt["k"] - abs(d) * 200 * (1 + abs(nt["k"]))
        terms.insert(rng.randint(0, len(terms)), nt)
    if len(terms) > 6:
        terms = terms[:6]
    if rng.random() < 0.04 and terms and len(vs) >= 2:
        # a tiny but real coefficient (5e-7 .. 2e-6) on one more variable of a term: over |v| <= 1000 it still moves the
        # constraint by more than the tolerance when the constant is small
        t = rng.choice(terms)
        free = [v for v in vs if v not in t["c"]]
        if free:
            t["c"][rng.choice(free)] = rng.choice([1.0, -1.0]) * rng.choice([5e-7, 8e-7, 1e-6, 2e-6])
    case = {"kind": "list", "family": fam, "style": style, "terms": terms, "ctx": ctx_}
    if rng.random() < 0.15:
        tw = print_alike_twin(rng, terms)
        if tw is not None:
            case["twin"] = tw
    return case


def print_alike_twin(rng, terms: List[Dict[str, Any]]) -> Optional[List[Dict[str, Any]]]:
    """The same list with one coefficient moved by 1-3e-4 relative: it prints like the original (four significant
    digits) but is a different list; simplified right after the original, in the same process."""
    cands = [(i, v) for i, t in enumerate(terms) for v, c in t["c"].items() if c != 0]
    rng.shuffle(cands)
    for i, v in cands[:6]:
        c = terms[i]["c"][v]
        c2 = c * (1 + rng.choice([1e-4, 2e-4, 3e-4, -1e-4, -2e-4]))
        if c2 != c and "%.4g" % c2 == "%.4g" % c:
            out = [dict(c=dict(t["c"]), k=t["k"]) for t in terms]
            out[i]["c"][v] = c2
            return out
    return None


def gen_case(rng) -> Dict[str, Any]:
    r = rng.random()
    if r < 0.75:
        return list_case(rng)
    if r < 0.92:
        style = gen.pick_style(rng)
        c = gen.rcontract(rng, ["i1", "i2"][: rng.randint(1, 2)], ["o1", "o2"][: rng.randint(1, 2)], style)
        gen.dup_noise(rng, c)
        if c["a"] and rng.random() < 0.5:
            # a guarantee that the assumptions already imply with margin
            t = rng.choice(c["a"])
            c["g"].insert(rng.randint(0, len(c["g"])), {"c": dict(t["c"]), "k": t["k"] + rng.choice([1.0, 2.0, 10.0])})
        return {"kind": "contract", "family": "contract", "contract": c, "at_construction": rng.random() < 0.6}
    cc = gen.compose_case(rng)
    return {"kind": "compose", "family": "compose", "c1": cc["c1"], "c2": cc["c2"]}


def blend_case(rng) -> Dict[str, Any]:
    return gen_case(rng)


# seed-independent core: inputs on which the pinned tree (or an intermediate repair) failed
CORE = [
    {"kind": "list", "family": "core", "style": "wide", "ctx": None,
     "terms": [gen.T({"o1": 0.3333, "e": 250000.0}, -0.0001), gen.T({"o1": -1000000.0, "E1": -0.3333, "e": 1000000.0},
                                                                   0.0101)]},
    {"kind": "list", "family": "core", "style": "wide",
     "terms": [{"c": {"e": -0.0100999899, "a": -250000.0}, "k": 500000.10985999997},
               {"c": {"c": 0.3333, "a": -0.3333, "e": 791400.0}, "k": 1582800.9006999999},
               {"c": {"a": 0.02}, "k": 340.4}],
     "ctx": [{"c": {"e": -0.0101, "a": -250000.0}, "k": 500000.10985999997}]},
    {"kind": "list", "family": "core", "style": "wide", "terms": [{"c": {"a": -948.8, "c": -1000000.0, "e": -0.0008812}, "k": -2000948.8025435999}, {"c": {"b": -3.0, "e": 1000000.0, "a": 1000000.0}, "k": 3999992.234}, {"c": {"a": -1.234, "e": 1000.0, "d": 250000.0}, "k": -496966.304}], "ctx": [{"c": {"c": -78.9}, "k": 1000.0}, {"c": {"d": 123400.0, "c": -9.999}, "k": -370199.5}, {"c": {"a": 1.234, "c": 0.5, "e": -0.02116}, "k": -3.24432}]},
    {"kind": "list", "family": "core", "style": "wide", "terms": [{"c": {"b": -0.0001, "a": 1000.0}, "k": 0.9997}, {"c": {"a": -1.234}, "k": 1.234}, {"c": {"a": 0.0006429}, "k": 0.001}, {"c": {"b": -9.99995e-05}, "k": 12.4997}, {"c": {"b": 10090.0, "a": 7.708}, "k": 30270.0001}], "ctx": [{"c": {"b": -0.0001}, "k": 12.4997}]},
    # satisfiable equality systems whose presolved LP reports "infeasible" (the helper's second solve finds the optimum)
    {"kind": "list", "family": "core", "style": "wide", "ctx": [],
     "terms": [{"c": {"a": 0.001}, "k": 0.001}, {"c": {"a": -0.001}, "k": -0.001}, {"c": {"a": -4567.0}, "k": -4567.0}]},
    {"kind": "list", "family": "core", "style": "wide",
     "terms": [{"c": {"b": 1.0}, "k": 2.0}, {"c": {"b": -1.0}, "k": -2.0},
               {"c": {"b": 279500.0, "c": 440100.0}, "k": 740200.0},
               {"c": {"b": -279500.0, "c": -440100.0}, "k": -740200.0}, {"c": {"c": -250000.0}, "k": 251000.0}],
     "ctx": [{"c": {"c": -3.0}, "k": 6.0001}, {"c": {"b": -7373.0}, "k": 3.0}]},
    {"kind": "list", "family": "core", "style": "int", "terms": [{"c": {}, "k": 0.0}, {"c": {}, "k": 1.0},
                                                                 {"c": {}, "k": 2.5}], "ctx": [{"c": {}, "k": 1.0}]},
    {"kind": "list", "family": "core", "style": "float",
     "terms": [{"c": {"Sal": 0.03076722090261283, "xRFP": -1.0}, "k": -0.0229904988123516},
               {"c": {"Sal": -0.03076722090261283, "xRFP": 1.0}, "k": 0.0229904988123516},
               {"c": {"aTc": 88.84821428571429, "dCas9": -1.0}, "k": -0.15502678571428574},
               {"c": {"aTc": -88.84821428571429, "dCas9": 1.0}, "k": 0.15502678571428574}],
     "ctx": [{"c": {"Sal": 1.0}, "k": 43.0}, {"c": {"Sal": -1.0}, "k": -0.9}, {"c": {"aTc": 1.0}, "k": 0.0129999999999999},
             {"c": {"aTc": -1.0}, "k": -0.0018000000000000238}]},
]


def run(ctx: Ctx) -> None:
    import copy

    for k, case in enumerate(CORE):
        if ctx.mine(k):
            run_case(ctx, copy.deepcopy(case))
            ctx.count("core_cases")
    for _ in range(ctx.n(12000, 250000)):
        if ctx.out_of_time():
            break
        run_case(ctx, gen_case(ctx.rng))


def replay(ctx: Ctx, case: Dict[str, Any]) -> None:
    run_case(ctx, case)
