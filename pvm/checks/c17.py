"""C17 - compound (disjunctive) contracts behave as unions of polyhedra."""
from __future__ import annotations

import itertools
from fractions import Fraction
from typing import Any, Dict, List, Optional, Tuple

import z3

from pvm import corpus, exact as X
from pvm import gen, monitors as M
from pvm.core import Ctx
from pvm import probes as P

PROP = "C17"

_rec = None


def recorder() -> P.Recorder:
    global _rec
    if _rec is None:
        _rec = P.Recorder()
        for n in ("contains_behavior", "intersect", "__le__"):
            _rec.attach_method(P.NestedTermList, n, "Nested." + n)
        _rec.attach_method(P.IoContractCompound, "merge", "Compound.merge")
    return _rec


Alt = List[Dict[str, Any]]


def U(alts: List[Alt]) -> Any:
    return z3.Or([X.conj(a) for a in alts]) if alts else z3.BoolVal(False)


def box_alt(vs: List[str], lo: List[float], hi: List[float]) -> Alt:
    out: Alt = []
    for v, l, h in zip(vs, lo, hi):
        out += [gen.T({v: 1.0}, h), gen.T({v: -1.0}, -l)]
    return out


def gen_alts(rng, vs: List[str], k: int, mode: str) -> List[Alt]:
    """k alternatives over vs: boxes placed side by side along the first variable."""
    alts: List[Alt] = []
    x0 = float(rng.randint(-4, 0))
    for i in range(k):
        w = float(rng.choice([1, 2, 0.5]))
        lo = [x0] + [float(rng.randint(-3, 0)) for _ in vs[1:]]
        hi = [x0 + w] + [l + float(rng.randint(1, 3)) for l in lo[1:]]
        a = box_alt(vs, lo, hi)
        if rng.random() < 0.3 and len(vs) >= 2:
            a.append(gen.T({vs[0]: 1.0, vs[1]: float(rng.choice([1, -1]))}, float(rng.randint(0, 4))))
        alts.append(a)
        if mode == "disjoint":
            x0 = x0 + w + float(rng.choice([0.125, 1, 2]))
        elif mode == "touching":
            x0 = x0 + w + (0.0 if i == 0 else float(rng.choice([0.125, 1])))
        elif mode == "overlapping":
            x0 = x0 + w - (float(rng.choice([0.25, 0.5])) if i == 0 else -0.5)
        else:  # mixed
            x0 = x0 + w + float(rng.choice([0.125, 1, 0.0, -0.25]))
    if mode in ("subsets", "mixed") and len(vs) >= 2 and rng.random() < (1.0 if mode == "subsets" else 0.25):
        # alternatives that constrain different variables (or nothing at all) overlap although they share no variable
        alts = []
        for i in range(k):
            r = rng.random()
            if r < 0.2:
                alts.append([])                                   # the alternative 'true'
            else:
                v = vs[i % len(vs)] if r < 0.8 else rng.choice(vs)
                lo = float(rng.randint(-3, 1))
                alts.append(box_alt([v], [lo], [lo + float(rng.choice([1, 2]))]) if rng.random() < 0.6 else
                            [gen.T({v: rng.choice([1.0, -1.0])}, float(rng.randint(-2, 3)))])
        rng.shuffle(alts)
        return alts
    if mode == "with_empty" or rng.random() < 0.15:
        v = vs[0]
        alts.insert(rng.randint(0, len(alts)), [gen.T({v: 1.0}, 20.0), gen.T({v: -1.0}, -21.0)])
    rng.shuffle(alts)
    return alts


def fine_alts(rng, vs: List[str], k: int) -> List[Alt]:
    """Disjoint narrow boxes around 100 or 1000 on the first variable: they differ only beyond the fourth significant
    digit (so they print alike) but are further apart than the tolerance of the numerical reading."""
    base, unit = rng.choice([(100.0, 1 / 128), (1000.0, 1 / 4), (-100.0, 1 / 128)])
    x0 = base + unit * rng.randint(0, 3)
    alts: List[Alt] = []
    rest_lo = [float(rng.randint(-3, 0)) for _ in vs[1:]]
    rest_hi = [l + float(rng.randint(1, 3)) for l in rest_lo]
    for _ in range(k):
        w = unit * rng.choice([1, 2])
        alts.append(box_alt(vs, [x0] + rest_lo, [x0 + w] + rest_hi))
        x0 = x0 + w + unit * rng.choice([2, 4])
    return alts


def to_strings(a: Alt) -> List[str]:
    out = []
    for t in a:
        lhs = " + ".join("%r*%s" % (c, v) if c >= 0 else "(0-%r)*%s" % (-c, v) for v, c in t["c"].items())
        # keep to the plain documented forms
        parts = []
        for i, (v, c) in enumerate(t["c"].items()):
            mag = abs(c)
            body = v if mag == 1 else "%r %s" % (mag, v)
            parts.append(("-" if c < 0 else "") + body if i == 0 else (" - " if c < 0 else " + ") + body)
        _ = lhs
        out.append("".join(parts) + " <= %r" % t["k"])
    return out


def share_point(a: Alt, b: Alt) -> str:
    return X.feasible(a + b)


def pairwise_overlap(alts: List[Alt]) -> Optional[bool]:
    res = False
    for a, b in itertools.combinations(alts, 2):
        r = share_point(a, b)
        if r == "unknown":
            return None
        if r == "sat":
            res = True
    return res


def snap_nested(n: Any) -> List[Alt]:
    return [X.snap_list(tl) for tl in n.nested_termlist]


def exact_in(alts: List[Alt], pt: Dict[str, float]) -> bool:
    p = {v: Fraction(x) for v, x in pt.items()}
    return any(all(X.eval_term(t, p) <= 0 for t in a) for a in alts)


def run_case(ctx: Ctx, case: Dict[str, Any]) -> None:  # noqa: C901
    rec = recorder()
    rec.reset()
    kind = case["kind"]
    nontrivial = True
    if kind == "disjointness":
        alts = case["alts"]
        ov = pairwise_overlap(alts)
        try:
            P.NestedPolyhedra([P.mk_list(a) for a in alts], True)
            out = "returned"
        except ValueError:
            out = "ValueError"
        except Exception as e:  # noqa: BLE001
            out = type(e).__name__
        ctx.count("disjointness:%s:overlap=%s:%s" % (case["mode"], ov, out))
        if ov is None:
            ctx.inconclusive_case()
        elif out not in ("returned", "ValueError"):
            ctx.count("undocumented-exception(C14):%s" % out)
        elif (out == "ValueError") != ov:
            ctx.violation("disjointness-%s" % ("missed-overlap" if ov else "spurious-rejection"),
                          "NestedPolyhedra(force_empty_intersection=True) on %s %s, but the alternatives %s a "
                          "behaviour" % ([X.fmt_list(a) for a in alts], "was accepted" if out == "returned" else
                                         "raised ValueError", "share" if ov else "do not share"), case)
    elif kind == "membership":
        alts = case["alts"]
        n = P.NestedPolyhedra([P.mk_list(a) for a in alts], False)
        pt = case["point"]
        try:
            got: Any = n.contains_behavior({P.mk_var(v): x for v, x in pt.items()})
        except Exception as e:  # noqa: BLE001
            got = e
        want = exact_in(alts, pt)
        ctx.count("membership:%s" % want)
        if isinstance(got, Exception):
            if isinstance(got, ValueError):
                ctx.violation("membership-spurious-valueerror", "contains_behavior raised ValueError although every "
                              "variable has a value", case)
            else:
                ctx.count("undocumented-exception(C14):%s" % type(got).__name__)
                ctx.violation("membership-raised:%s" % type(got).__name__, "nested contains_behavior raised %s instead "
                              "of answering %s" % (type(got).__name__, want), case)
        elif bool(got) == want:
            ctx.count("agree:membership:%s" % want)
        if not isinstance(got, Exception) and bool(got) != want:
            ctx.violation("membership-wrong", "nested contains_behavior(%s) on %s answered %s; some alternative "
                          "contains it: %s" % (pt, [X.fmt_list(a) for a in alts], got, want), case)
    elif kind == "le":
        A = P.NestedPolyhedra([P.mk_list(a) for a in case["left"]], False)
        B = P.NestedPolyhedra([P.mk_list(a) for a in case["right"]], False)
        try:
            got = A <= B
        except Exception as e:  # noqa: BLE001
            ctx.count("le:raised:%s" % type(e).__name__)
            ctx.case_done(case, False)
            return
        names = X.names_of(case["left"], case["right"])
        r, w = X.check(X.box(names), U(case["left"]), z3.And([X.anyviol(b) for b in case["right"]]) if case["right"]
                       else z3.BoolVal(True))
        ctx.count("le:answer=%s:counterexample=%s" % (bool(got), r))
        if r == "unknown":
            ctx.inconclusive_case()
        elif got and r == "sat":
            ctx.violation("le-unsound", "%s <= %s answered True but the left union is not contained in the right one"
                          % ([X.fmt_list(a) for a in case["left"]], [X.fmt_list(a) for a in case["right"]]), case, w)
    else:  # merge of two compound contracts
        c = case
        try:
            c1 = P.PolyhedralIoContractCompound.from_strings([to_strings(a) for a in c["a1"]],
                                                             [to_strings(a) for a in c["g1"]], c["in1"], c["out1"])
            c2 = P.PolyhedralIoContractCompound.from_strings([to_strings(a) for a in c["a2"]],
                                                             [to_strings(a) for a in c["g2"]], c["in2"], c["out2"])
        except ValueError:
            ctx.count("merge:operand-construction-rejected")
            ctx.case_done(case, False)
            return
        a1, g1, a2, g2 = snap_nested(c1.a), snap_nested(c1.g), snap_nested(c2.a), snap_nested(c2.g)
        try:
            m = c1.merge(c2)
            out = "returned"
        except ValueError:
            out = "ValueError"
        except Exception as e:  # noqa: BLE001
            out = type(e).__name__
        ctx.count("merge:%s" % out)
        if out == "returned":
            ma, mg = snap_nested(m.a), snap_nested(m.g)
            for nm, got_alts, x1, x2 in (("assumptions", ma, a1, a2), ("guarantees", mg, g1, g2)):
                r, w = X.check(U(got_alts) != z3.And(U(x1), U(x2)))
                if r == "unknown":
                    ctx.inconclusive_case()
                elif r == "sat":
                    ctx.violation("merge-%s-not-intersection" % nm, "compound merge: the union of the result's %s "
                                  "alternatives %s is not the intersection of the operands' unions" % (
                                      nm, [X.fmt_list(a) for a in got_alts]), case, w)
                for a in got_alts:
                    if X.feasible(a) == "unsat" and X.feasible([{"c": t["c"], "k": t["k"] + 1e-3} for t in a]) == \
                            "unsat":
                        ctx.violation("merge-kept-empty-alternative", "compound merge kept the empty %s alternative %s"
                                      % (nm, X.fmt_list(a)), case)
                        break
            if set(X.vname(v) for v in m.inputvars) != set(c["in1"]) | set(c["in2"]) or \
                    set(X.vname(v) for v in m.outputvars) != set(c["out1"]) | set(c["out2"]):
                ctx.violation("merge-interface-not-union", "compound merge interface is not the union", case)
            ctx.count("merge:result-alternatives", len(ma) + len(mg))
        elif out == "ValueError":
            # refusal is justified by an ill-formed union interface only (operand assumption alternatives are
            # disjoint, so their pairwise intersections are disjoint as well)
            ins, outs = set(c["in1"]) | set(c["in2"]), set(c["out1"]) | set(c["out2"])
            if not (ins & outs):
                ctx.violation("merge-spurious-rejection", "compound merge raised ValueError for a well-formed union "
                              "interface and disjoint assumption alternatives", case)
        else:
            ctx.count("undocumented-exception(C14):%s" % out)
    for ev in rec.events():
        if ev.mutated and ev.op != "Compound.merge":
            ctx.violation("mutated-operand:%s" % ev.op, "%s modified %s" % (ev.op, ev.mutated), case)
    sample = None
    if len(ctx.samples) < 3 and kind == "merge":
        sample = {"case": case}
    ctx.case_done(case, nontrivial, sample)


def gen_case(rng) -> Dict[str, Any]:
    r = rng.random()
    nv = rng.randint(1, 4)
    vs = ["x", "y", "z", "w"][:nv]
    if r < 0.3:
        mode = rng.choice(["disjoint", "touching", "overlapping", "mixed", "with_empty", "subsets"])
        return {"kind": "disjointness", "mode": mode, "alts": gen_alts(rng, vs, rng.randint(1, 3), mode)}
    if r < 0.5:
        alts = gen_alts(rng, vs, rng.randint(1, 3), rng.choice(["disjoint", "overlapping", "mixed"]))
        # a point on / next to a boundary of some alternative
        pt = {v: rng.randint(-16, 16) / 4.0 for v in vs}
        nonempty = [a for a in alts if a]
        if nonempty:
            a = rng.choice(nonempty)
            t = rng.choice(a)
            v = list(t["c"])[0]
            others = sum(Fraction(c) * Fraction(pt[u]) for u, c in t["c"].items() if u != v)
            pt[v] = float((Fraction(t["k"]) - others) / Fraction(t["c"][v])) + rng.choice([0.0, 1 / 64, -1 / 64])
        return {"kind": "membership", "alts": alts, "point": pt}
    if r < 0.7:
        left = gen_alts(rng, vs, rng.randint(1, 3), "mixed")
        if rng.random() < 0.5:
            # right: each left alternative weakened, plus noise -> contained
            right = [[dict(c=dict(t["c"]), k=t["k"] + rng.choice([0.0, 1.0])) for t in a] for a in left]
            rng.shuffle(right)
            if rng.random() < 0.3:
                right = right[:-1] or right
        else:
            right = gen_alts(rng, vs, rng.randint(1, 3), "mixed")
        return {"kind": "le", "left": left, "right": right}
    ins = vs[: max(1, nv // 2)]
    outs = [v for v in vs if v not in ins] or ["o"]
    shared_out = rng.random() < 0.5
    in2 = list(ins) if rng.random() < 0.7 else ins + ["j"]
    out2 = list(outs) if shared_out else ["p"]

    def alts_for(vars_, k, mode):
        return gen_alts(rng, vars_, k, mode)

    if rng.random() < 0.12:
        # alternatives that print alike: the merge must keep every one of them
        a1 = fine_alts(rng, ins, rng.randint(2, 3))
        lo = min(-t["k"] for a in a1 for t in a if t["c"].get(ins[0]) == -1.0) - 1.0
        hi = max(t["k"] for a in a1 for t in a if t["c"].get(ins[0]) == 1.0) + 1.0
        a2 = [box_alt([ins[0]], [lo], [hi])] if rng.random() < 0.6 else [[dict(c=dict(t["c"]), k=t["k"]) for t in a]
                                                                         for a in a1]
        return {"kind": "merge", "in1": ins, "out1": outs, "in2": list(ins), "out2": out2, "a1": a1, "a2": a2,
                "g1": alts_for(outs, rng.randint(1, 2), "mixed"), "g2": alts_for(out2, rng.randint(1, 2), "mixed"),
                "family": "fine"}
    case = {"kind": "merge", "in1": ins, "out1": outs, "in2": in2, "out2": out2,
            "a1": alts_for(ins, rng.randint(1, 3), "disjoint"), "a2": alts_for(in2[:len(ins)], rng.randint(1, 3),
                                                                              "disjoint"),
            "g1": alts_for(outs, rng.randint(1, 3), rng.choice(["mixed", "overlapping"])),
            "g2": alts_for(out2, rng.randint(1, 3), rng.choice(["mixed", "overlapping"]))}
    return case


def blend_case(rng) -> Dict[str, Any]:
    return gen_case(rng)


def run(ctx: Ctx) -> None:
    for _ in range(ctx.n(12000, 200000)):
        if ctx.out_of_time():
            break
        run_case(ctx, gen_case(ctx.rng))


def replay(ctx: Ctx, case: Dict[str, Any]) -> None:
    run_case(ctx, case)
