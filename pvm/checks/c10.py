"""C10 - contracts survive serialisation to dictionaries, strings and files."""
from __future__ import annotations

import os
import shutil
import tempfile
from typing import Any, Dict, List, Optional

from pvm import corpus, exact as X
from pvm import gen, monitors as M
from pvm.core import Ctx
from pvm import probes as P

PROP = "C10"

NAMES_IN = ["i1", "x", "e", "In_2", "alpha", "e1", "E2"]  # e, e1, E2, E1, e3x: read as exponents if glued to a number
NAMES_OUT = ["o1", "y", "E1", "out_b", "z9", "e3x"]


def r4(x: float) -> float:
    return float("%.4g" % x)


def rounded(tl: List[Dict[str, Any]]) -> List[Dict[str, Any]]:
    return [{"c": {v: r4(c) for v, c in t["c"].items()}, "k": r4(t["k"])} for t in tl]


def number(rng, kind: str) -> float:
    if kind == "int":
        return float(rng.choice([1, 2, 3, 5, 7, 10, 25, 100, 1000, 12345, 999999]))
    if kind == "dec4":
        m = rng.choice([1.5, 2.25, 0.125, 3.75, 1.234, 9.999, 0.5, 12.5, 0.001, 0.0101, 4567.0, 0.3333, 78.9,
                        0.9999, 0.9999, 0.9998, 1.001, 99.99,
                        123400.0, 0.0001, 2.5e5, 1e6])
        return m
    mag = 10 ** rng.uniform(-4, 6)
    return mag * rng.uniform(0.1, 1.0) if rng.random() < 0.5 else rng.uniform(1e-4, 1e6) ** rng.uniform(0.2, 1)


def rnd_term(rng, vs: List[str], kind: str) -> Dict[str, Any]:
    k = rng.randint(1, min(3, len(vs)))
    sel = rng.sample(vs, k)
    c = {}
    for v in sel:
        r = rng.random()
        x = 1.0 if r < 0.2 else (rng.choice([0.9999, 0.9998, 1.001]) if r < 0.24 else number(rng, kind))
        c[v] = x if rng.random() < 0.5 else -x
    kk = 0.0 if rng.random() < 0.1 else number(rng, kind) * rng.choice([1, -1])
    return {"c": c, "k": kk}


def plant_pairs(rng, tl: List[Dict[str, Any]], kind: str) -> List[Dict[str, Any]]:
    """Insert the exact opposite of some term at a random position, with equal / negated / unrelated / zero constant."""
    if not tl or rng.random() < 0.35:
        return tl
    out = list(tl)
    if rng.random() < 0.25:
        # a pair that is *almost* opposite, with small coefficients: it must not be folded
        vs = sorted({v for t in out for v in t["c"]})[:2]
        small = {v: rng.choice([1e-4, 2e-4, 5e-4, 1e-3]) * rng.choice([1, -1]) for v in vs}
        k = rng.choice([0.05, 0.5, 0.0, 0.001])
        t1 = {"c": dict(small), "k": k}
        v0 = vs[0]
        pert = dict(small)
        pert[v0] = small[v0] * (1 + rng.choice([0.02, 0.05, -0.03, 0.1]))
        t2 = {"c": {v: -c for v, c in pert.items()}, "k": rng.choice([k, -k])}
        pos = rng.randint(0, len(out))
        out[pos:pos] = [t1]
        out.insert(rng.randint(pos + 1, len(out)), t2)
    for _ in range(rng.randint(1, 2)):
        t = rng.choice(out)
        mode = rng.choice(["equal", "negated", "unrelated", "zero"])
        opp = {"c": {v: -c for v, c in t["c"].items()}, "k": 0.0}
        if mode == "equal":
            opp["k"] = t["k"]
        elif mode == "negated":
            opp["k"] = -t["k"]
        elif mode == "unrelated":
            opp["k"] = number(rng, kind) + 3.0 * abs(t["k"]) + 1.0
        else:
            base = {"c": dict(t["c"]), "k": 0.0}
            out[out.index(t)] = base
            opp["k"] = 0.0
        out.insert(rng.randint(0, len(out)), opp)
    return out


def gen_case(rng) -> Dict[str, Any]:
    kind = rng.choice(["int", "dec4", "float", "dec4"])
    ins = rng.sample(NAMES_IN, rng.randint(1, 2))
    outs = rng.sample(NAMES_OUT, rng.randint(1, 2))
    a = [rnd_term(rng, ins, kind) for _ in range(rng.randint(0, 3))]
    g = [rnd_term(rng, ins + outs, kind) for _ in range(rng.randint(1, 4))]
    a = plant_pairs(rng, a, kind)
    g = plant_pairs(rng, g, kind)
    return {"kind": kind, "contract": {"in": ins, "out": outs, "a": a, "g": g}}


def fieldwise_equal(a: Dict[str, Any], b: Dict[str, Any]) -> bool:
    return X.canon(a) == X.canon(b)


def meaning_equal_exact(actual: Dict[str, Any], expect_a: List[Dict[str, Any]], expect_g: List[Dict[str, Any]]):
    r, w = X.check(X.conj(actual["a"]) != X.conj(expect_a))
    if r != "unsat":
        return r, "assumptions", w
    r, w = X.check(X.conj(actual["a"] + actual["g"]) != X.conj(expect_a + expect_g))
    return r, "assumptions-and-guarantees", w


def meaning_equal_tol(actual: Dict[str, Any], expect_a: List[Dict[str, Any]], expect_g: List[Dict[str, Any]]):
    names = X.names_of(actual, expect_a, expect_g)
    st, d, w = M.equiv_tol([], actual["a"], expect_a, names)
    if st != "ok":
        return st, "assumptions:" + str(d), w
    st, d, w = M.equiv_tol([], actual["a"] + actual["g"], expect_a + expect_g, names)
    return st, "assumptions-and-guarantees:" + str(d), w


def in_scope(n: Dict[str, Any]) -> bool:
    """The property quantifies over magnitudes in [1e-4, 1e6] (zero constants allowed); every term mentions a variable."""
    for t in n["a"] + n["g"]:
        if not any(c != 0 for c in t["c"].values()):
            return False
        for x in list(t["c"].values()) + [t["k"]]:
            if x != 0 and not (0.99e-4 <= abs(x) <= 1.01e6):
                return False
    return True


_rec = None


def recorder() -> P.Recorder:
    global _rec
    if _rec is None:
        _rec = P.Recorder()
        P.attach_l0(_rec)
    return _rec


_core = {"on": False}


def audit_suffix() -> str:
    a = M.lp_audit(recorder().events())
    s = (":" + a) if a else ""
    if _core["on"]:
        s += ":regression-core"   # regressions on the seed-independent core never match an open known finding
    return s


def run_case(ctx: Ctx, case: Dict[str, Any]) -> None:  # noqa: C901
    n = case["contract"]
    recorder().reset()
    _core["on"] = case.get("kind") == "core"
    if not in_scope(n):
        ctx.count("out-of-scope:magnitude-outside-[1e-4,1e6]")
        ctx.case_done(case, False)
        return
    try:
        c = P.mk_contract(n, simplify=False)
    except ValueError:
        ctx.count("gen:construction-rejected")
        ctx.case_done(case, False)
        return
    s0 = X.snap_contract(c)
    kind = case.get("kind", "?")
    # ---- (1) machine dictionary and back, without re-simplification: equal exactly
    try:
        md = c.to_machine_dict()
        back = P.PolyhedralIoContract.from_dict(md, simplify=False)
        sb = X.snap_contract(back)
        ctx.count("reach:machine-dict")
        eq = None
        try:
            eq = bool(back == c)
        except Exception as e:  # noqa: BLE001
            eq = e
        if eq is not True or not fieldwise_equal(sb, s0):
            ctx.violation("machine-dict-roundtrip", "to_machine_dict/from_dict(simplify=False) of %s gave %s (== says %r)"
                          % (s0, sb, eq), case)
    except Exception as e:  # noqa: BLE001
        ctx.violation("machine-dict-raised:%s" % type(e).__name__, "machine dictionary round trip of %s raised %r" % (
            s0, e), case)
    tmp = tempfile.mkdtemp(prefix="pvm_c10_")
    try:
        # ---- (2) machine file through the file reader: same interface and meaning
        fn = os.path.join(tmp, "m.json")
        try:
            recorder().reset()
            P.fileio_mod.write_contracts_to_file([c], ["c"], fn, machine_representation=True)
            cs, names = P.fileio_mod.read_contracts_from_file(fn)
            sm = X.snap_contract(cs[0])
            ctx.count("reach:machine-file")
            if (sm["in"], sm["out"]) != (s0["in"], s0["out"]) or names != ["c"]:
                ctx.violation("machine-file-interface", "machine file round trip changed interface/names: %s -> %s %s"
                              % (s0, sm, names), case)
            st, where, w = meaning_equal_tol(sm, s0["a"], s0["g"])
            if st == "unknown":
                ctx.inconclusive_case()
            elif st == "diff":
                ctx.violation("machine-file-meaning:" + where.split(":")[0] + audit_suffix(),
                              "machine file round trip of %s gave %s" % (s0, sm), case, w)
        except ValueError:
            ctx.count("machine-file:reader-refused(ValueError)")
            # judged only when the contract has a behaviour (with margin) inside the box of the numerical reading
            if X.check(X.box(X.names_of(s0)), X.conj([{"c": t["c"], "k": t["k"] - 1e-3 * (1 + abs(t["k"]))}
                                                     for t in s0["a"] + s0["g"]]))[0] == "sat":
                ctx.violation("machine-file-refused-satisfiable" + audit_suffix(), "file reader refused the machine "
                              "file of the satisfiable contract %s" % s0, case)
        except Exception as e:  # noqa: BLE001
            ctx.violation("machine-file-raised:%s" % type(e).__name__, "machine file round trip of %s raised %r" % (
                s0, e), case)
        # ---- (3) human-readable strings
        ea, eg = rounded(s0["a"]), rounded(s0["g"])
        try:
            hd = c.to_dict()
        except Exception as e:  # noqa: BLE001
            ctx.violation("to_dict-raised:%s" % type(e).__name__, "to_dict of %s raised %r" % (s0, e), case)
            hd = None
        if hd is not None:
            nfold = sum(1 for s in hd["assumptions"] + hd["guarantees"] if "|" in s or " = " in s)
            if nfold:
                ctx.count("reach:folded-strings", nfold)
            try:
                rs = P.PolyhedralIoContract.from_strings(hd["assumptions"], hd["guarantees"], hd["input_vars"],
                                                         hd["output_vars"], simplify=False)
                sh = X.snap_contract(rs)
                ctx.count("reach:strings-exact")
                if (sh["in"], sh["out"]) != (s0["in"], s0["out"]):
                    ctx.violation("strings-interface", "string round trip changed the interface %s -> %s" % (s0, sh),
                                  case)
                r, where, w = meaning_equal_exact(sh, ea, eg)
                if r == "unknown":
                    ctx.inconclusive_case()
                elif r == "sat":
                    ctx.violation("strings-meaning:" + where + (":folded" if nfold else ""),
                                  "%s printed as %s reads back as %s, which is not the original rounded to four "
                                  "significant digits (%s)" % (s0, {k: hd[k] for k in ("assumptions", "guarantees")},
                                                                sh, where), case, w)
            except (P.PolyhedralSyntaxException, P.PolyhedralSyntaxConvexException, ValueError) as e:
                ctx.violation("printed-string-rejected:%s" % type(e).__name__, "the parser rejects what the printer "
                              "emitted for %s: %s" % (s0, {k: hd[k] for k in ("assumptions", "guarantees")}), case)
            except Exception as e:  # noqa: BLE001
                ctx.violation("strings-raised:%s" % type(e).__name__, "string round trip of %s raised %r" % (s0, e),
                              case)
            # ---- (4) human file through the file reader (re-simplifies): tolerance reading
            fn2 = os.path.join(tmp, "h.json")
            try:
                recorder().reset()
                P.fileio_mod.write_contracts_to_file([c], ["c"], fn2, machine_representation=False)
                cs, names = P.fileio_mod.read_contracts_from_file(fn2)
                sf = X.snap_contract(cs[0])
                ctx.count("reach:human-file")
                if (sf["in"], sf["out"]) != (s0["in"], s0["out"]):
                    ctx.violation("human-file-interface", "human file round trip changed the interface %s -> %s" % (
                        s0, sf), case)
                st, where, w = meaning_equal_tol(sf, ea, eg)
                if st == "unknown":
                    ctx.inconclusive_case()
                elif st == "diff":
                    ctx.violation("human-file-meaning:" + where.split(":")[0] + audit_suffix(),
                                  "human file round trip of %s gave %s" % (s0, sf), case, w)
            except ValueError as e:
                if isinstance(e, (P.IncompatibleArgsError,)):
                    ctx.violation("human-file-raised:IncompatibleArgsError", "human file round trip of %s raised %r"
                                  % (s0, e), case)
                else:
                    ctx.count("human-file:reader-refused(ValueError)")
            except Exception as e:  # noqa: BLE001
                ctx.violation("human-file-raised:%s" % type(e).__name__, "human file round trip of %s raised %r" % (
                    s0, e), case)
    finally:
        shutil.rmtree(tmp, ignore_errors=True)
    ctx.count("kind:" + kind)
    sample = None
    if len(ctx.samples) < 3 and hd is not None:
        sample = {"contract": s0, "printed": hd}
    ctx.case_done(case, True, sample)


def blend_case(rng) -> Dict[str, Any]:
    return gen_case(rng)


def core_cases() -> List[Dict[str, Any]]:
    """Seed-independent core: contracts on which an earlier tree failed."""
    import json

    out = []
    p = os.path.join(os.path.dirname(os.path.abspath(__file__)), "c10_core.json")
    try:
        with open(p) as f:
            data = json.load(f)
        out = data if isinstance(data, list) else [data]
    except Exception:  # noqa: BLE001
        pass
    out.append({"kind": "core", "contract": {"in": ["e"], "out": ["o1", "E1"], "a": [], "g": [
        {"c": {"o1": 0.3333, "e": 250000.0}, "k": -0.0001},
        {"c": {"o1": -1000000.0, "E1": -0.3333, "e": 1000000.0}, "k": 0.0101}]}})
    out.append({"kind": "core", "contract": {"in": ["i1"], "out": ["z9"], "a": [], "g": [
        {"c": {"z9": 0.5, "i1": 0.001}, "k": 0.5}, {"c": {"i1": 0.3333, "z9": 4567.0}, "k": -0.0101},
        {"c": {"i1": -1000000.0, "z9": 0.0001}, "k": 78.9}]}})
    return out


def run(ctx: Ctx) -> None:
    for j, case in enumerate(core_cases()):
        if ctx.mine(j):
            run_case(ctx, dict(case))
            ctx.count("core_cases")
    k = 0
    for entry in corpus.load():
        for c in entry["contracts"]:
            if ctx.mine(k):
                run_case(ctx, {"kind": "corpus", "file": entry["file"], "contract": c})
                ctx.count("corpus_cases")
            k += 1
    for _ in range(ctx.n(10000, 200000)):
        if ctx.out_of_time():
            break
        run_case(ctx, gen_case(ctx.rng))


def replay(ctx: Ctx, case: Dict[str, Any]) -> None:
    run_case(ctx, case)
