"""C15 - composition and merging never forget an interface-level guarantee."""
from __future__ import annotations

from typing import Any, Dict, List, Optional

from pvm import exact as X
from pvm import gen, monitors as M
from pvm.core import Ctx
from pvm import probes as P

PROP = "C15"

_rec = None


def recorder() -> P.Recorder:
    global _rec
    if _rec is None:
        _rec = P.Recorder()
        P.attach_l3(_rec, ioc=["compose_tactics", "merge"], pic=[])
    return _rec


def kept_terms_check(ctx: Ctx, op: str, s1: Dict[str, Any], s2: Dict[str, Any], sr: Dict[str, Any], case: Any) -> int:
    iface = set(sr["in"]) | set(sr["out"])
    names = X.names_of(s1, s2, sr)
    n = 0
    for who, other, src in (("first", s2, s1), ("second", s1, src2 := s2)):
        for t in src["g"]:
            tv = {v for v, c in t["c"].items() if c != 0}
            if not tv or not tv <= iface:
                continue
            n += 1
            r, w = X.check(X.box(names), X.conj(sr["a"]), X.conj(sr["g"]), X.viol(t))
            if r == "unknown":
                ctx.inconclusive_case()
            elif r == "sat":
                # mechanism: dropped although implied by the other operand's guarantees alone?
                ro, _ = X.check(X.box(names), X.conj(other["g"]), X.viol(t))
                mech = "mutual-context-drop" if ro == "unsat" and op == "compose" else "forgotten-guarantee"
                ctx.violation("%s:%s" % (op, mech), "%s of %s and %s returned %s, which no longer enforces the %s "
                              "operand's interface-level guarantee %s" % (op, s1, s2, sr, who, X.fmt_term(t)),
                              case, w)
    _ = src2
    return n


def run_case(ctx: Ctx, case: Dict[str, Any]) -> None:  # noqa: C901
    rec = recorder()
    rec.reset()
    rec.enabled = False
    try:
        c1 = P.mk_contract(case["c1"], simplify=True)
        c2 = P.mk_contract(case["c2"], simplify=True)
    except ValueError:
        ctx.count("gen:operand-construction-rejected")
        ctx.case_done(case, False)
        return
    finally:
        rec.enabled = True
    s1, s2 = X.snap_contract(c1), X.snap_contract(c2)
    op = case.get("op", "compose")
    kw: Dict[str, Any] = {}
    if case.get("order") is not None:
        kw["tactics_order"] = list(case["order"])
    nontrivial = False
    sample = None
    runs = [("fwd", c1, c2, s1, s2)]
    if case.get("both_orders", True):
        runs.append(("rev", c2, c1, s2, s1))
    for tag, x, y, sx, sy in runs:
        try:
            if op == "compose":
                res = x.compose_tactics(y, list(case.get("keep") or []), case.get("simplify", True), **kw)[0]
            else:
                res = x.merge(y)
        except Exception as e:  # noqa: BLE001
            en = type(e).__name__
            ctx.count("outcome:%s:%s" % (op, en))
            if not isinstance(e, ValueError):
                ctx.count("undocumented-exception(C14):%s" % en)
            continue
        try:
            sr = X.snap_contract(res)
        except Exception as e:  # noqa: BLE001
            ctx.violation("result-not-a-contract", "%s returned %r (%s)" % (op, res, e), case)
            continue
        ctx.count("outcome:%s:returned" % op)
        n = kept_terms_check(ctx, op, sx, sy, sr, case)
        if n:
            ctx.count("reach:%s:interface-level-terms-checked" % op, n)
            nontrivial = True
        if op == "compose":
            connected = bool((set(sx["out"]) & set(sy["in"])) | (set(sy["out"]) & set(sx["in"])))
            ctx.count("reach:compose:connected=%s:simplify=%s" % (connected, bool(case.get("simplify", True))))
            if case.get("variant"):
                ctx.count("reach:compose:overlap:" + case["variant"])
            if not connected:
                # nothing to eliminate: the composition must be exact
                names = X.names_of(sx, sy, sr)
                st, d, w = M.equiv_tol([], sr["a"], sx["a"] + sy["a"], names)
                if st == "unknown":
                    ctx.inconclusive_case()
                elif st == "diff":
                    ctx.violation("compose:unconnected-assumptions-inexact:" + d, "composition of unconnected %s and "
                                  "%s has assumptions %s" % (sx, sy, X.fmt_list(sr["a"])), case, w)
                st, d, w = M.equiv_tol([X.conj(sr["a"])], sr["g"], sx["g"] + sy["g"], names)
                if st == "unknown":
                    ctx.inconclusive_case()
                elif st == "diff":
                    ro = "unknown"
                    mech = "compose:unconnected-guarantees-inexact:" + d
                    if d == "left-does-not-imply-right":
                        mech = "compose:mutual-context-drop"
                    ctx.violation(mech, "composition of unconnected %s and %s has guarantees %s: not the conjunction "
                                  "of both guarantees under the composed assumptions" % (sx, sy, X.fmt_list(sr["g"])),
                                  case, w)
                    _ = ro
                nontrivial = True
                ctx.count("reach:compose:exactness-checked")
        if sample is None and len(ctx.samples) < 3 and n:
            sample = {"case": case, "result": sr, "interface_level_terms_checked": n}
    for ev in rec.roots:
        for f in M.purity_findings(ev):
            ctx.violation(f[0], f[1], case)
    ctx.case_done(case, nontrivial, sample)


def run(ctx: Ctx) -> None:
    n = ctx.n(7000, 120000)
    for i in range(n):
        if ctx.out_of_time():
            break
        r = ctx.rng.random()
        if r < 0.45:
            case = gen.overlap_compose_case(ctx.rng)
            case["op"] = "compose"
        elif r < 0.75:
            case = gen.compose_case(ctx.rng, ctx.rng.choice(["indep", "shared_in", "cascade", "mixed", "feedback"]))
            case["op"] = "compose"
        else:
            case = gen.merge_case(ctx.rng)
            case["op"] = "merge"
        run_case(ctx, case)


def replay(ctx: Ctx, case: Dict[str, Any]) -> None:
    run_case(ctx, case)


def blend_case(rng) -> Dict[str, Any]:
    case = gen.overlap_compose_case(rng)
    case["op"] = "compose"
    return case
