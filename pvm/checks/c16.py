"""C16 - renaming variables is faithful substitution."""
from __future__ import annotations

from typing import Any, Dict, List, Optional, Tuple

import z3

from pvm import exact as X
from pvm import gen, monitors as M
from pvm.core import Ctx
from pvm import probes as P
from pvm.checks.c06 import prescribe_rename

PROP = "C16"

_rec = None


def recorder() -> P.Recorder:
    global _rec
    if _rec is None:
        _rec = P.Recorder()
        P.attach_l3(_rec, ioc=["rename_variable"], pic=["rename_variables"])
    return _rec


def sigma(f: Any, src: str, dst: str) -> Any:
    return z3.substitute(f, (X.zv(src), X.zv(dst)))


def equiv_formulas(fa: Any, fb: Any, concl_a: List[Dict[str, Any]], names: List[str], hyp_b_terms=None):
    """Tolerance equivalence between a term list (left) and an arbitrary formula (right, exact)."""
    # left => right is checked exactly on the formula; right => left with tolerance on the left's terms
    r1, w1 = X.check(X.box(names), fb, X.anyviol(concl_a)) if concl_a else ("unsat", None)
    return r1, w1


def subst_list(tl: List[Dict[str, Any]], src: str, dst: str) -> List[Dict[str, Any]]:
    """Reference substitution on the neutral representation (exact for dyadic data: float add is exact)."""
    out = []
    for t in tl:
        c: Dict[str, float] = {}
        for v, x in t["c"].items():
            w = dst if v == src else v
            c[w] = c.get(w, 0.0) + x
        out.append({"c": {v: x for v, x in c.items() if x != 0}, "k": t["k"]})
    return out


def judge_rename(ctx: Ctx, s0: Dict[str, Any], src: str, dst: str, outcome: str, res: Any, case: Any, tag: str) -> None:
    rj, ins, outs = prescribe_rename(s0, src, dst)
    ctx.count("rename:%s:%s" % (tag, outcome if outcome in ("returned", "IncompatibleArgsError", "ValueError")
                                 else "other"))
    if rj:
        if outcome != "IncompatibleArgsError":
            ctx.violation("clash-not-rejected", "renaming %s to %s in %s would make a variable input and output but %s"
                          % (src, dst, s0, "returned" if outcome == "returned" else "raised " + outcome), case)
        return
    if outcome != "returned":
        if outcome == "IncompatibleArgsError":
            ctx.violation("spurious-rejection", "renaming %s to %s in %s raised IncompatibleArgsError" % (src, dst, s0),
                          case)
        elif outcome != "ValueError":
            ctx.count("undocumented-exception(C14):%s" % outcome)
        return
    sr = res
    if set(sr["in"]) != set(ins) or set(sr["out"]) != set(outs) or len(set(sr["in"])) != len(sr["in"]) or \
            len(set(sr["out"])) != len(sr["out"]):
        ctx.violation("interface-wrong:" + tag, "renaming %s to %s in interface %s/%s gave %s/%s; expected %s/%s" % (
            src, dst, s0["in"], s0["out"], sr["in"], sr["out"], ins, outs), case)
    present = src in s0["in"] or src in s0["out"]
    ea = subst_list(s0["a"], src, dst) if present and src != dst else s0["a"]
    eg = subst_list(s0["g"], src, dst) if present and src != dst else s0["g"]
    names = X.names_of(sr, ea, eg)
    st, d, w = M.equiv_tol([], sr["a"], ea, names)
    if st == "unknown":
        ctx.inconclusive_case()
    elif st == "diff":
        ctx.violation("assumptions-not-substitution:" + tag, "renaming %s to %s in %s gave assumptions %s; the "
                      "substitution instance is %s" % (src, dst, s0, X.fmt_list(sr["a"]), X.fmt_list(ea)), case, w)
    st, d, w = M.equiv_tol([], sr["a"] + sr["g"], ea + eg, names)
    if st == "unknown":
        ctx.inconclusive_case()
    elif st == "diff":
        ctx.violation("guarantees-not-substitution:" + tag, "renaming %s to %s in %s gave %s; assumptions and "
                      "guarantees differ from the substitution instance A=%s G=%s" % (
                          src, dst, s0, sr, X.fmt_list(ea), X.fmt_list(eg)), case, w)
    if not present and X.canon(sr) != X.canon(s0):
        # renaming an absent variable changes nothing (the copy may re-simplify, so compare meaning + interface)
        if (sr["in"], sr["out"]) != (s0["in"], s0["out"]):
            ctx.violation("absent-source-changed-interface", "renaming the absent %s changed %s into %s" % (src, s0, sr),
                          case)


def call(fn) -> Tuple[str, Any]:
    try:
        r = fn()
        return "returned", r
    except Exception as e:  # noqa: BLE001
        return type(e).__name__, e


def run_case(ctx: Ctx, case: Dict[str, Any]) -> None:  # noqa: C901
    rec = recorder()
    rec.reset()
    kind = case["kind"]
    if kind == "term":
        t = P.mk_term(case["term"])
        out, r = call(lambda: t.rename_variable(P.mk_var(case["src"]), P.mk_var(case["dst"])))
        ctx.count("term-rename:" + out)
        if out == "returned":
            got = X.snap_term(r)
            exp = subst_list([case["term"]], case["src"], case["dst"])[0]
            r2, w = X.check(X.holds(got) != X.holds(exp))
            if r2 == "sat":
                ctx.violation("term-not-substitution", "term %s renamed %s->%s gave %s, expected %s" % (
                    X.fmt_term(case["term"]), case["src"], case["dst"], X.fmt_term(got), X.fmt_term(exp)), case, w)
            if X.canon(X.snap_term(t)) != X.canon(case["term"]):
                ctx.violation("mutated-operand:term", "rename_variable modified its term", case)
        ctx.case_done(case, True)
        return
    try:
        c = P.mk_contract(case["contract"], True)
    except ValueError:
        ctx.count("gen:construction-rejected")
        ctx.case_done(case, False)
        return
    s0 = X.snap_contract(c)
    if kind == "single":
        src, dst = case["src"], case["dst"]
        out, r = call(lambda: c.rename_variable(P.mk_var(src), P.mk_var(dst)))
        judge_rename(ctx, s0, src, dst, out, X.snap_contract(r) if out == "returned" else r, case,
                     case.get("pair", "?"))
        if out == "returned" and case.get("pair") == "fresh":
            # fresh and back restores interface and meaning
            out2, r2 = call(lambda: r.rename_variable(P.mk_var(dst), P.mk_var(src)))
            ctx.count("fresh-and-back:" + out2)
            if out2 == "returned":
                sb = X.snap_contract(r2)
                if set(sb["in"]) != set(s0["in"]) or set(sb["out"]) != set(s0["out"]):
                    ctx.violation("fresh-and-back-interface", "renaming %s to %s and back gave interface %s/%s from "
                                  "%s/%s" % (src, dst, sb["in"], sb["out"], s0["in"], s0["out"]), case)
                names = X.names_of(sb, s0)
                st, d, w = M.equiv_tol([], sb["a"] + sb["g"], s0["a"] + s0["g"], names)
                if st == "diff":
                    ctx.violation("fresh-and-back-meaning", "renaming %s to %s and back changed the meaning: %s -> %s"
                                  % (src, dst, s0, sb), case, w)
            elif out2 != "ValueError":
                ctx.violation("fresh-and-back-raised:" + out2, "renaming back raised %r" % (r2,), case)
    else:  # sequence of mappings, applied left to right
        maps = case["mappings"]
        out, r = call(lambda: c.rename_variables([(a, b) for a, b in maps]))
        # reference: fold the single-step prescription
        cur = s0
        expect_reject = False
        for a, b in maps:
            rj, ins, outs = prescribe_rename(cur, a, b)
            if rj:
                expect_reject = True
                break
            present = a in cur["in"] or a in cur["out"]
            cur = {"in": ins, "out": outs,
                   "a": subst_list(cur["a"], a, b) if present and a != b else cur["a"],
                   "g": subst_list(cur["g"], a, b) if present and a != b else cur["g"]}
        ctx.count("sequence:%s:%s" % (case.get("shape", "?"), out if out in ("returned", "IncompatibleArgsError",
                                                                              "ValueError") else "other"))
        if expect_reject:
            # an earlier step may legitimately fail first (ValueError: the merged constraints are unsatisfiable)
            if out != "IncompatibleArgsError" and out != "ValueError":
                ctx.violation("sequence-clash-not-rejected", "mappings %s on %s must be rejected but %s" % (
                    maps, s0, out), case)
        elif out == "returned":
            sr = X.snap_contract(r)
            if set(sr["in"]) != set(cur["in"]) or set(sr["out"]) != set(cur["out"]):
                ctx.violation("sequence-interface-wrong", "mappings %s on %s/%s gave %s/%s; applied left to right they "
                              "give %s/%s" % (maps, s0["in"], s0["out"], sr["in"], sr["out"], cur["in"], cur["out"]),
                              case)
            names = X.names_of(sr, cur)
            st, d, w = M.equiv_tol([], sr["a"] + sr["g"], cur["a"] + cur["g"], names)
            if st == "unknown":
                ctx.inconclusive_case()
            elif st == "diff":
                ctx.violation("sequence-not-substitution", "mappings %s on %s gave %s; applied left to right the "
                              "substitution instance is %s" % (maps, s0, sr, cur), case, w)
        elif out == "IncompatibleArgsError":
            ctx.violation("sequence-spurious-rejection", "mappings %s on %s raised IncompatibleArgsError" % (maps, s0),
                          case)
    for ev in rec.roots:
        for f in M.purity_findings(ev):
            ctx.violation(f[0], f[1], case)
    sample = None
    if len(ctx.samples) < 3 and kind == "sequence":
        sample = {"case": case}
    ctx.case_done(case, True, sample)


def gen_case(rng) -> Dict[str, Any]:
    style = rng.choice(["int", "int", "dyadic"])
    r = rng.random()
    if r < 0.15:
        vs = gen.VN[:4]
        t = gen.rterm(rng, vs, 3, style)
        src = rng.choice(vs + ["absent"])
        dst = rng.choice([v for v in vs + ["fresh"] if v != src])  # the property speaks of distinct names here
        if rng.random() < 0.3 and len(t["c"]) >= 2:
            # make the coefficients cancel when merged
            a, b = list(t["c"])[:2]
            t["c"][b] = -t["c"][a]
            src, dst = a, b
        return {"kind": "term", "term": t, "src": src, "dst": dst}
    ins = ["i1", "i2", "i3"][: rng.randint(1, 3)]
    outs = ["o1", "o2"][: rng.randint(1, 2)]
    c = gen.rcontract(rng, ins, outs, style)
    if r < 0.75:
        pair = rng.choice(["fresh", "existing_input", "existing_output", "absent", "same", "any"])
        allv = ins + outs
        src = rng.choice(allv)
        if pair == "fresh":
            dst = "fresh"
        elif pair == "existing_input":
            dst = rng.choice(ins)
        elif pair == "existing_output":
            dst = rng.choice(outs)
        elif pair == "absent":
            src, dst = "absent", rng.choice(allv + ["fresh"])
        elif pair == "same":
            dst = src
        else:
            dst = rng.choice(allv + ["fresh"])
        return {"kind": "single", "pair": pair, "contract": c, "src": src, "dst": dst}
    shape = rng.choice(["swap_through_temp", "chain", "random", "repeat"])
    allv = ins + outs
    if shape == "swap_through_temp":
        a, b = (rng.sample(ins, 2) if len(ins) >= 2 and rng.random() < 0.6 else
                rng.sample(outs, 2) if len(outs) >= 2 else (ins[0], outs[0]))
        maps = [[a, "tmp"], [b, a], ["tmp", b]]
    elif shape == "chain":
        a = rng.choice(allv)
        maps = [[a, "n1"], ["n1", "n2"], ["n2", "n3"]]
    elif shape == "repeat":
        a = rng.choice(allv)
        maps = [[a, "n1"], [a, "n2"]]
    else:
        maps = [[rng.choice(allv + ["absent"]), rng.choice(allv + ["fresh", "n1"])] for _ in range(rng.randint(1, 3))]
    return {"kind": "sequence", "shape": shape, "contract": c, "mappings": maps}


def blend_case(rng) -> Dict[str, Any]:
    return gen_case(rng)


def run(ctx: Ctx) -> None:
    for _ in range(ctx.n(14000, 250000)):
        if ctx.out_of_time():
            break
        run_case(ctx, gen_case(ctx.rng))


def replay(ctx: Ctx, case: Dict[str, Any]) -> None:
    run_case(ctx, case)
