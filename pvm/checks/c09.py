"""C09 - parsing a constraint string preserves its arithmetic meaning."""
from __future__ import annotations

import itertools
from fractions import Fraction
from typing import Any, Dict, List, Optional, Tuple

import z3

from pvm import exact as X
from pvm.core import Ctx
from pvm import probes as P

PROP = "C09"

VARS = ["x", "y", "z", "w", "e", "x_1", "Ab"]

# dyadic values only: floats, their products and sums are then exact, so the written relation under real
# arithmetic and the parsed floats can be compared exactly.  Each value comes with several spellings.
NUMS: List[Tuple[Fraction, List[str], List[str]]] = [
    # value, spellings usable anywhere a number is, spellings usable only as a stand-alone constant
    (Fraction(2), ["2", "2.", "2.0", "2e0", "(4/2)", "(1*2)", "0.2e1", ".2e1"], ["(2)", "(1+1)", "(3-1)"]),
    (Fraction(3), ["3", "3.0", "(6/2)", "(1.5*2)", "30e-1", ".3E1"], ["(3)", "(1+2)", "(5-2)"]),
    (Fraction(1, 2), ["0.5", ".5", "(1/2)", "5e-1", "(2/4)", "0.50", ".5e0", ".05e1"], ["(1-0.5)", "(.25+.25)"]),
    (Fraction(3, 2), ["1.5", "(3/2)", "(6/4)", "15e-1", "(0.5*3)", ".15e1"], ["(1+0.5)", "(2-.5)"]),
    (Fraction(4), ["4", "4.0", "(2*2)", "(8/2)", "4E0", "(2*2*1)"], ["(2+2)", "(1+1+2)", "(6-2)"]),
    (Fraction(1, 4), ["0.25", ".25", "(1/4)", "25e-2", "(1/2/2)", ".25e0", ".025E+1"], ["(0.5-0.25)"]),
    (Fraction(10), ["10", "1e1", "1E1", "1e+1", "(5*2)", "10.0", ".1e2", ".1E+2", "100.e-1"], ["(5+5)", "(12-2)"]),
    (Fraction(1), ["1", "1.0", "1.", "(2/2)", "1e0"], ["(1)", "(2-1)", "(0.5+0.5)"]),
    (Fraction(5, 2), ["2.5", "(5/2)", "(10/4)", "(1.25*2)", ".25e1", "25.e-1"], ["(2+.5)", "(3-0.5)"]),
    (Fraction(0), ["0", "0.0", "(0/2)", "(0*3)"], ["(0)", "(1-1)"]),
]


ARITH_OPERANDS = ["1", "2", "3", "4", "5", "8", "0.5", "0.25", "1.5", "10", "2.0", ".5"]
DIVISORS = ["2", "4", "8", "0.5", "0.25", "2.0"]


def rand_arith(rng, standalone: bool) -> Dict[str, Any]:
    """A random flat constant expression '(a op b op c ...)' with exact (dyadic) value.

    Operators of one or both precedence levels are mixed freely; evaluation here uses ordinary
    precedence and left associativity on Fractions.
    """
    k = rng.randint(2, 4)
    mode = rng.choice(["mul", "mul", "mixed", "add"] if standalone else ["mul", "mul", "mixed"])
    toks: List[str] = [rng.choice(ARITH_OPERANDS)]
    for _ in range(k - 1):
        if mode == "mul":
            op = rng.choice("*/")
        elif mode == "add":
            op = rng.choice("+-")
        else:
            op = rng.choice("*/+-")
        toks.append(op)
        toks.append(rng.choice(DIVISORS) if op == "/" else rng.choice(ARITH_OPERANDS))
    if mode == "mixed" and not any(t in "*/" for t in toks[1::2]):
        toks[1] = "*"
    # evaluate: first the multiplicative runs, then the additive chain
    terms: List[Fraction] = []
    signs: List[str] = ["+"]
    cur = Fraction(toks[0])
    for op, val in zip(toks[1::2], toks[2::2]):
        v = Fraction(val)
        if op == "*":
            cur *= v
        elif op == "/":
            cur /= v
        else:
            terms.append(cur)
            signs.append(op)
            cur = v
    terms.append(cur)
    total = Fraction(0)
    for sg, t in zip(signs, terms):
        total = total + t if sg == "+" else total - t
    sp = rng.choice(["", " "])
    return {"s": "(" + sp.join(toks) + ")", "v": [total.numerator, total.denominator], "arith": True}


def pick_num(rng, standalone: bool, simple: bool = False, nonzero: bool = False) -> Dict[str, Any]:
    if not simple and rng.random() < 0.3:
        for _ in range(5):
            n = rand_arith(rng, standalone)
            if not (nonzero and n["v"][0] == 0) and abs(n["v"][0]) < 10 ** 6 and n["v"][1] < 2 ** 20:
                return n
    while True:
        val, anyw, alone = rng.choice(NUMS)
        if nonzero and val == 0:
            continue
        break
    sp = anyw[:1] if simple else (anyw + (alone if standalone else []))
    s = rng.choice(sp)
    return {"s": s, "v": [val.numerator, val.denominator]}


def nval(n: Dict[str, Any]) -> Fraction:
    return Fraction(n["v"][0], n["v"][1])


STARS = ["", "", "*", " * ", " ", " *", "* "]


def sep_for(rng, var: str) -> str:
    s = rng.choice(STARS)
    if var[0] in "eE" and "*" not in s and " " not in s:
        s = rng.choice(["*", " "])  # '2e' would otherwise start an exponent
    return s


# ----------------------------------------------------------------------------------------------
# generation of trees


def gen_termchunk(rng, depth: int) -> Dict[str, Any]:
    r = rng.random()
    if depth <= 0 or r < 0.3:
        return {"k": "var", "v": rng.choice(VARS)}
    if r < 0.55:
        v = rng.choice(VARS)
        return {"k": "nv", "n": pick_num(rng, False), "v": v, "star": sep_for(rng, v)}
    if r < 0.7:
        return {"k": "num", "n": pick_num(rng, True)}
    if r < 0.85:
        return {"k": "par", "n": None, "star": "", "sum": gen_sum(rng, depth - 1)}
    return {"k": "par", "n": pick_num(rng, False), "star": rng.choice(["", "", "*", " * ", " "]),
            "sum": gen_sum(rng, depth - 1)}


def exact_decimal(fr: Fraction) -> str:
    """The finite decimal expansion of a non-negative dyadic rational."""
    den = fr.denominator
    k = den.bit_length() - 1
    assert den == 1 << k and fr >= 0
    digits = str(fr.numerator * 5 ** k).rjust(k + 1, "0")
    return (digits[:-k] + "." + digits[-k:]) if k else digits


def near_cancel(rng, ch: Dict[str, Any], sign: str) -> Optional[List[Any]]:
    """A second occurrence of the variable of `ch` whose coefficient almost cancels the first one: the sum keeps a
    small but real coefficient (2^-k of the first, k = 21..40; all values dyadic, so float arithmetic stays exact)."""
    base = Fraction(1) if ch["k"] == "var" else nval(ch["n"])
    if base <= 0 or base.denominator > 2 ** 10 or base > 1000:
        return None
    k = rng.choice([21, 21, 24, 30, 40])
    val = base * (1 + rng.choice([-1, 1]) * Fraction(1, 2 ** k))
    n = {"s": exact_decimal(val), "v": [val.numerator, val.denominator]}
    return ["+" if sign == "-" else "-", {"k": "nv", "n": n, "v": ch["v"], "star": rng.choice(["", "*", " "])
                                          if ch["v"][0] not in "eE" else rng.choice(["*", " "])}]


def gen_sum(rng, depth: int, nmax: int = 3) -> List[List[Any]]:
    n = rng.randint(1, nmax)
    out = []
    for i in range(n):
        sign = rng.choice(["", "", "-", "+"]) if i == 0 else rng.choice(["+", "-"])
        out.append([sign, gen_termchunk(rng, depth)])
    return out


def gen_near_cancel_sides(rng) -> List[List[List[Any]]]:
    """Two shallow sides (plain variables, simply spelled coefficients, at most one parenthesis or absolute value with
    a small factor) with one almost-cancelling pair: every coefficient stays below 2^10 * 2^-40, exact in a float."""
    def simple_chunk() -> Dict[str, Any]:
        r = rng.random()
        v = rng.choice(VARS)
        if r < 0.4:
            return {"k": "var", "v": v}
        if r < 0.8:
            return {"k": "nv", "n": pick_num(rng, False, simple=True, nonzero=True), "v": v, "star": sep_for(rng, v)}
        return {"k": "num", "n": pick_num(rng, True, simple=True)}

    def simple_sum(nmax: int) -> List[List[Any]]:
        out = []
        for i in range(rng.randint(1, nmax)):
            out.append([rng.choice(["", "", "-", "+"]) if i == 0 else rng.choice(["+", "-"]), simple_chunk()])
        return out

    while True:
        inner = simple_sum(3)
        cands = [(sg, ch) for sg, ch in inner if ch["k"] in ("var", "nv")]
        if not cands:
            continue
        sg, ch = rng.choice(cands)
        extra = near_cancel(rng, ch, sg)
        if extra is None:
            continue
        inner.insert(rng.randint(1, len(inner)), extra)
        break
    r = rng.random()
    if r < 0.5:
        left = inner
    else:
        wrap = {"k": "par" if r < 0.75 else "abs", "n": pick_num(rng, False, simple=True, nonzero=True)
                if rng.random() < 0.5 else None, "star": rng.choice(["", "*", " "]), "sum": inner}
        left = [[rng.choice(["", "+"]), wrap]]
        if rng.random() < 0.5:
            left += [[rng.choice(["+", "-"]), simple_chunk()]]
    right = simple_sum(2)
    return [left, right]


def gen_abschunk(rng, depth: int, pool: List[List[List[Any]]]) -> Dict[str, Any]:
    """Absolute-value term; re-uses an earlier inner sum with some probability (repeated abs terms)."""
    if pool and rng.random() < 0.45:
        inner = rng.choice(pool)
    else:
        inner = gen_sum(rng, max(0, depth - 1), 2)
        pool.append(inner)
    if rng.random() < 0.5:
        return {"k": "abs", "n": None, "star": "", "sum": inner}
    return {"k": "abs", "n": pick_num(rng, False), "star": rng.choice(["", "", "*", " * ", " "]), "sum": inner}


def gen_side(rng, depth: int, allow_abs: bool, pool: List[List[List[Any]]]) -> List[List[Any]]:
    n = rng.randint(1, 3)
    out = []
    for i in range(n):
        sign = rng.choice(["", "", "-", "+"]) if i == 0 else rng.choice(["+", "-"])
        r = rng.random()
        if not allow_abs or r < 0.5:
            ch = gen_termchunk(rng, depth)
        elif r < 0.8:
            ch = gen_abschunk(rng, depth, pool)
        else:
            inner = []
            for j in range(rng.randint(1, 3)):
                s2 = rng.choice(["", "", "-", "+"]) if j == 0 else rng.choice(["+", "-"])
                inner.append([s2, gen_abschunk(rng, depth - 1, pool) if rng.random() < 0.5
                              else gen_termchunk(rng, depth - 1)])
            ch = {"k": "pabs", "n": pick_num(rng, False) if rng.random() < 0.5 else None,
                  "star": rng.choice(["", "", "*", " * ", " "]), "chunks": inner}
        out.append([sign, ch])
    return out


# ----------------------------------------------------------------------------------------------
# rendering and meaning


def render_chunk(ch: Dict[str, Any], sp) -> str:
    k = ch["k"]
    if k == "var":
        return ch["v"]
    if k == "nv":
        return ch["n"]["s"] + ch["star"] + ch["v"]
    if k == "num":
        return ch["n"]["s"]
    pre = (ch["n"]["s"] + ch["star"]) if ch.get("n") else ""
    if k == "par":
        return pre + "(" + sp() + render_chunks(ch["sum"], sp) + sp() + ")"
    if k == "abs":
        return pre + "|" + sp() + render_chunks(ch["sum"], sp) + sp() + "|"
    if k == "pabs":
        return pre + "(" + sp() + render_chunks(ch["chunks"], sp) + sp() + ")"
    raise ValueError(k)


def render_chunks(chunks: List[List[Any]], sp) -> str:
    out = ""
    for i, (sign, ch) in enumerate(chunks):
        body = render_chunk(ch, sp)
        if i == 0:
            out += sign + (sp() if sign else "") + body
        else:
            out += sp() + sign + sp() + body
    return out


def mean_chunk(ch: Dict[str, Any]) -> Any:
    k = ch["k"]
    if k == "var":
        return X.zv(ch["v"])
    if k == "nv":
        return X.q(nval(ch["n"])) * X.zv(ch["v"])
    if k == "num":
        return X.q(nval(ch["n"]))
    f = X.q(nval(ch["n"])) if ch.get("n") else None
    if k == "par":
        e = mean_chunks(ch["sum"])
    elif k == "abs":
        i = mean_chunks(ch["sum"])
        e = z3.If(i >= 0, i, -i)
    else:
        e = mean_chunks(ch["chunks"])
    return e if f is None else f * e


def mean_chunks(chunks: List[List[Any]]) -> Any:
    tot = z3.RealVal(0)
    for sign, ch in chunks:
        e = mean_chunk(ch)
        tot = tot - e if sign == "-" else tot + e
    return tot


def relation(case: Dict[str, Any]) -> Any:
    op = case["op"]
    sides = [mean_chunks(s) for s in case["sides"]]
    if op in ("=", "=="):
        return sides[0] == sides[1]
    rel = []
    for a, b in zip(sides, sides[1:]):
        rel.append(a <= b if op == "<=" else a >= b)
    return z3.And(rel)


def rename_vars(e: Any, suffix: str) -> Any:
    subs = []
    for n, v in list(X._vars.items()):
        subs.append((v, z3.Real("v_" + n + suffix)))
    return z3.substitute(e, *subs)


def features(case: Dict[str, Any]) -> List[str]:
    fs = set()

    def walk(chunks, inabs=False):
        for sign, ch in chunks:
            if sign == "-":
                fs.add("neg")
            k = ch["k"]
            fs.add(k)
            if ch.get("n"):
                if k != "num":
                    fs.add("factor")
                sp_ = ch["n"]["s"]
                if sp_.startswith("("):
                    fs.add("const-arith")
                    if sum(sp_.count(o) for o in "*/") >= 2 or sum(sp_.count(o) for o in "+-") >= 2:
                        fs.add("chained-constant-arithmetic")
            if ch.get("star") and "*" in ch.get("star", ""):
                fs.add("star")
            if k in ("par", "abs"):
                walk(ch["sum"])
            if k == "pabs":
                walk(ch["chunks"])

    for s in case["sides"]:
        walk(s)
    if len(case["sides"]) > 2:
        fs.add("chain")
    fs.add("op" + case["op"])
    # repeated absolute term (same inner linear form in two abs items of the whole relation)
    inner = []

    def absforms(chunks):
        for sign, ch in chunks:
            if ch["k"] == "abs":
                inner.append(linform(ch["sum"]))
            elif ch["k"] == "pabs":
                absforms(ch["chunks"])

    for s in case["sides"]:
        absforms(s)
    if len(inner) != len(set(inner)):
        fs.add("repeated-abs-term")
    # repeated variable in one linear part
    for s in case["sides"]:
        vs = []

        def vars_of(chunks):
            for sign, ch in chunks:
                if ch["k"] in ("var", "nv"):
                    vs.append(ch["v"])
                elif ch["k"] in ("par", "abs"):
                    vars_of(ch["sum"])
                elif ch["k"] == "pabs":
                    vars_of(ch["chunks"])

        vars_of(s)
        if len(vs) != len(set(vs)):
            fs.add("repeated-variable")
    if case.get("near_cancel"):
        fs.add("nearly-cancelling-repeated-variable")
    return sorted(fs)


def linform(chunks: List[List[Any]]) -> str:
    """Canonical linear form of a non-abs sum (for detecting equal absolute terms)."""
    coef: Dict[str, Fraction] = {}
    const = Fraction(0)

    def acc(chs, mult):
        nonlocal const
        for sign, ch in chs:
            m = -mult if sign == "-" else mult
            k = ch["k"]
            if k == "var":
                coef[ch["v"]] = coef.get(ch["v"], 0) + m
            elif k == "nv":
                coef[ch["v"]] = coef.get(ch["v"], 0) + m * nval(ch["n"])
            elif k == "num":
                const += m * nval(ch["n"])
            elif k == "par":
                acc(ch["sum"], m * (nval(ch["n"]) if ch.get("n") else 1))

    acc(chunks, Fraction(1))
    return repr((sorted((v, c) for v, c in coef.items() if c != 0), const))


# ----------------------------------------------------------------------------------------------


def parse(s: str) -> Any:
    return P.ser_mod.polyhedral_termlist_from_string(s)


def judge(ctx: Ctx, case: Dict[str, Any]) -> None:  # noqa: C901
    s = case["string"]
    try:
        pts = parse(s)
        outcome = "accepted"
    except Exception as e:  # noqa: BLE001
        pts = e
        outcome = type(e).__name__
    kind = case.get("kind", "tree")
    ctx.count("outcome:%s:%s" % (kind, outcome))
    if kind == "mutated":
        if outcome not in ("accepted", "PolyhedralSyntaxException", "PolyhedralSyntaxConvexException", "ValueError"):
            ctx.violation("malformed-raises:%s@%s" % (outcome, P.exc_origin(pts)),
                          "parsing the malformed string %r raised %s instead of a syntax error" % (s, outcome), case)
        if outcome == "accepted":
            again = parse(s)
            if X.canon([X.snap_term(t) for t in again]) != X.canon([X.snap_term(t) for t in pts]):
                ctx.violation("nondeterministic", "parsing %r twice gave different results" % s, case)
        ctx.case_done(case, outcome == "accepted")
        return
    feats = features(case)
    if outcome != "accepted":
        if outcome == "PolyhedralSyntaxConvexException":
            pass
        elif outcome in ("PolyhedralSyntaxException", "ValueError"):
            ctx.count("rejected-syntax-feature:" + ",".join(f for f in feats if f in ("const-arith", "pabs", "chain")))
        else:
            ctx.violation("wellformed-raises:%s@%s" % (outcome, P.exc_origin(pts)),
                          "parsing %r raised %s" % (s, outcome), case)
        # a relation that is not convex must never be accepted; a rejected convex one is not a violation
        ctx.case_done(case, False)
        return
    try:
        parsed = [X.snap_term(t) for t in pts]
    except Exception as e:  # noqa: BLE001
        ctx.violation("result-not-terms", "parser returned %r (%s)" % (pts, e), case)
        ctx.case_done(case, False)
        return
    rel = relation(case)
    r, w = X.check(X.conj(parsed) != rel)
    for f in feats:
        ctx.count("accepted-feature:" + f)
    if r == "unknown":
        ctx.inconclusive_case()
    elif r == "sat":
        if "chained-constant-arithmetic" in feats:
            mech = "chained-constant-arithmetic"
        elif "repeated-abs-term" in feats:
            mech = "repeated-abs-term"
        else:
            mech = "meaning:" + ",".join(f for f in feats if f not in ("var", "nv", "num"))
        ctx.violation(mech, "%r was parsed as %s, which differs from the written relation at the witness" % (
            s, X.fmt_list(parsed)), case, w)
    # determinism / history independence of the parser
    again = [X.snap_term(t) for t in parse(s)]
    if X.canon(again) != X.canon(parsed):
        ctx.violation("nondeterministic", "parsing %r twice gave %s then %s" % (s, X.fmt_list(parsed),
                                                                                 X.fmt_list(again)), case)
    sample = None
    if len(ctx.samples) < 4 and ("abs" in feats or "pabs" in feats):
        sample = {"string": s, "parsed": [X.fmt_term(t) for t in parsed], "features": feats}
    ctx.case_done(case, True, sample)
    hist = ctx.__dict__.setdefault("_c09_hist", [])
    if len(hist) < 200 and ctx.rng.random() < 0.05:
        hist.append((s, X.canon(parsed), case))


def gen_tree_case(rng) -> Dict[str, Any]:
    sp_style = rng.choice(["none", "one", "mixed", "wide"])

    def sp() -> str:
        if sp_style == "none":
            return ""
        if sp_style == "one":
            return " "
        if sp_style == "wide":
            return rng.choice([" ", "  ", "\t"])
        return rng.choice(["", " "])

    pool: List[List[List[Any]]] = []
    r0 = rng.random()
    near = r0 < 0.05
    if near:
        sides = gen_near_cancel_sides(rng)
        op = rng.choice(["<=", "<=", ">=", "="]) if not any(ch["k"] == "abs" for _, ch in sides[0]) else "<="
    elif r0 < 0.24:
        op = rng.choice(["=", "=="])
        sides = [gen_sum(rng, 2), gen_sum(rng, 2)]
    else:
        op = rng.choice(["<=", ">="])
        nsides = rng.choice([2, 2, 2, 3])
        depth = rng.choice([1, 2, 2, 3])
        sides = [gen_side(rng, depth, True, pool) for _ in range(nsides)]
    case = {"kind": "tree", "op": op, "sides": sides}
    if near:
        case["near_cancel"] = True
    if op in ("<=", ">=") and len(sides) == 2 and rng.random() < 0.6 and not near:
        _bias_convex(sides, op)
    s = (sp() + op + sp()).join(render_chunks(x, sp) for x in sides)
    if sp_style == "wide":
        s = " " + s + " "
    case["string"] = s
    return case


def _bias_convex(sides: List[List[List[Any]]], op: str) -> None:
    """Give absolute-value chunks the sign that keeps the relation convex (more accepted strings)."""
    small = 0 if op == "<=" else 1
    for idx, side in enumerate(sides):
        want_pos = idx == small
        for j, item in enumerate(side):
            ch = item[1]
            if ch["k"] == "abs":
                item[0] = ("" if j == 0 else "+") if want_pos else "-"
                if ch.get("n") and ch["n"]["v"][0] == 0:
                    ch["n"] = None
                    ch["star"] = ""
            elif ch["k"] == "pabs":
                outer_pos = item[0] != "-"
                if ch.get("n") and ch["n"]["v"][0] == 0:
                    ch["n"] = None
                    ch["star"] = ""
                for jj, it2 in enumerate(ch["chunks"]):
                    if it2[1]["k"] == "abs":
                        pos = want_pos == outer_pos
                        it2[0] = ("" if jj == 0 else "+") if pos else "-"
                        if it2[1].get("n") and it2[1]["n"]["v"][0] == 0:
                            it2[1]["n"] = None
                            it2[1]["star"] = ""


MUT_CHARS = "+-*/()|<>=. 0123456789xyze_"


def mutate(rng, s: str) -> str:
    for _ in range(rng.randint(1, 2)):
        if not s:
            break
        i = rng.randrange(len(s))
        r = rng.random()
        if r < 0.3:
            s = s[:i] + s[i + 1:]
        elif r < 0.6:
            s = s[:i] + rng.choice(MUT_CHARS) + s[i:]
        elif r < 0.8:
            s = s[:i] + rng.choice(MUT_CHARS) + s[i + 1:]
        else:
            j = rng.randrange(len(s))
            i, j = min(i, j), max(i, j)
            s = s[:i] + s[j:] + s[i:j]
    return s


# bounded-exhaustive small shapes -----------------------------------------------------------------

def small_atoms(with_abs: bool) -> List[Dict[str, Any]]:
    two = {"s": "2", "v": [2, 1]}
    out: List[Dict[str, Any]] = []
    for v in ("x", "y"):
        out.append({"k": "var", "v": v})
        out.append({"k": "nv", "n": two, "v": v, "star": ""})
        if with_abs:
            out.append({"k": "abs", "n": None, "star": "", "sum": [["", {"k": "var", "v": v}]]})
            out.append({"k": "abs", "n": two, "star": "", "sum": [["", {"k": "var", "v": v}]]})
    out.append({"k": "num", "n": {"s": "1", "v": [1, 1]}})
    return out


def small_sides(with_abs: bool, maxitems: int) -> List[List[List[Any]]]:
    atoms = small_atoms(with_abs)
    sides: List[List[List[Any]]] = []
    for a in atoms:
        for sg in ("", "-"):
            sides.append([[sg, a]])
    if maxitems >= 2:
        for a in atoms:
            for sa in ("", "-"):
                for b in atoms:
                    for sb in ("+", "-"):
                        sides.append([[sa, a], [sb, b]])
    return sides


def small_cases(thorough: bool):
    """lhs with <= 2 items; rhs with 1 item (quick) or <= 2 items (thorough)."""
    lhs = small_sides(True, 2)
    rhs = small_sides(True, 2 if thorough else 1)
    for op in ("<=", ">="):
        for a in lhs:
            for b in rhs:
                yield {"kind": "tree", "small": True, "op": op, "sides": [a, b]}
    le = small_sides(False, 2)
    re_ = small_sides(False, 2 if thorough else 1)
    for a in le:
        for b in re_:
            yield {"kind": "tree", "small": True, "op": "=", "sides": [a, b]}


def run_case(ctx: Ctx, case: Dict[str, Any]) -> None:
    if "string" not in case:
        case["string"] = (" " + case["op"] + " ").join(render_chunks(x, lambda: " ") for x in case["sides"])
    judge(ctx, case)


def run(ctx: Ctx) -> None:
    # E: small shapes, enumerated
    for idx, case in enumerate(small_cases(not ctx.quick())):
        if ctx.mine(idx):
            run_case(ctx, case)
            ctx.count("small_shape_cases")
    # G: random trees and token-level mutations of their renderings
    n = ctx.n(24000, 600000)
    for i in range(n):
        if ctx.out_of_time():
            break
        case = gen_tree_case(ctx.rng)
        run_case(ctx, case)
        if ctx.rng.random() < 0.25:
            m = {"kind": "mutated", "string": mutate(ctx.rng, case["string"]), "from": case["string"]}
            run_case(ctx, m)
    # history independence: strings parsed earlier parse the same at the end of the session
    for s, can, case in ctx.__dict__.get("_c09_hist", []):
        try:
            again = [X.snap_term(t) for t in parse(s)]
        except Exception as e:  # noqa: BLE001
            ctx.violation("nondeterministic", "%r parsed earlier now raises %s" % (s, type(e).__name__), case)
            continue
        ctx.count("history-reparse")
        if X.canon(again) != can:
            ctx.violation("nondeterministic", "%r parsed differently later in the session" % s, case)


def replay(ctx: Ctx, case: Dict[str, Any]) -> None:
    run_case(ctx, case)


def blend_case(rng) -> Dict[str, Any]:
    case = gen_tree_case(rng)
    if rng.random() < 0.4:
        return {"kind": "mutated", "string": mutate(rng, case["string"]), "from": case["string"]}
    return case
