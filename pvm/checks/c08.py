"""C08 - merging is the exact conjunction of the two viewpoints."""
from __future__ import annotations

from typing import Any, Dict, Optional

from pvm import corpus, exact as X
from pvm import gen, monitors as M
from pvm.core import Ctx
from pvm import probes as P

PROP = "C08"

_rec = None


def recorder() -> P.Recorder:
    global _rec
    if _rec is None:
        _rec = P.Recorder()
        P.attach_l3(_rec, ioc=["merge"], pic=[])
    return _rec


def union(a, b):
    return list(a) + [x for x in b if x not in a]


def judge_merge(ctx: Ctx, s1: Dict[str, Any], s2: Dict[str, Any], sm: Dict[str, Any], case: Any, tag: str) -> None:
    names = X.names_of(s1, s2, sm)
    st, d, w = M.equiv_tol([], sm["a"], s1["a"] + s2["a"], names)
    if st == "unknown":
        ctx.inconclusive_case()
    elif st == "diff":
        ctx.violation("assumptions-not-conjunction:" + d, "merge(%s) of %s and %s has assumptions %s, not equivalent "
                      "to the conjunction of both assumptions" % (tag, s1, s2, X.fmt_list(sm["a"])), case, w)
    st, d, w = M.equiv_tol([X.conj(sm["a"])], sm["g"], s1["g"] + s2["g"], names)
    if st == "unknown":
        ctx.inconclusive_case()
    elif st == "diff":
        ctx.violation("guarantees-not-conjunction:" + d, "merge(%s) of %s and %s has guarantees %s: under the merged "
                      "assumptions they are not equivalent to both guarantees together" % (
                          tag, s1, s2, X.fmt_list(sm["g"])), case, w)
    if set(sm["in"]) != set(union(s1["in"], s2["in"])) or set(sm["out"]) != set(union(s1["out"], s2["out"])):
        ctx.violation("interface-not-union", "merge interface %s/%s is not the union of %s/%s and %s/%s" % (
            sm["in"], sm["out"], s1["in"], s1["out"], s2["in"], s2["out"]), case)
    wf = M.wellformed(sm)
    if wf:
        ctx.violation("ill-formed-result", "merge result ill formed: %s" % wf, case)


def run_case(ctx: Ctx, case: Dict[str, Any]) -> None:
    rec = recorder()
    rec.reset()
    rec.enabled = False
    try:
        c1 = P.mk_contract(case["c1"], simplify=True)
        c2 = P.mk_contract(case["c2"], simplify=True)
    except ValueError:
        ctx.count("gen:operand-construction-rejected")
        ctx.case_done(case, False)
        return
    finally:
        rec.enabled = True
    s1, s2 = X.snap_contract(c1), X.snap_contract(c2)
    fam = case.get("family", "?")
    nontrivial = False
    sample = None
    for tag, (x, y, sx, sy) in (("c1.merge(c2)", (c1, c2, s1, s2)), ("c2.merge(c1)", (c2, c1, s2, s1))):
        try:
            m = x.merge(y)
        except Exception as e:  # noqa: BLE001
            en = type(e).__name__
            ctx.count("outcome:%s:%s" % (fam, en))
            if not isinstance(e, ValueError):
                ctx.count("undocumented-exception(C14):%s" % en)
            elif en == "ValueError":
                # only an unsatisfiable conjunction may be refused this way
                allc = sx["a"] + sy["a"] + sx["g"] + sy["g"]
                if X.check(X.box(X.names_of(allc)), X.conj([{"c": t["c"], "k": t["k"] - 1e-3 * (1 + abs(t["k"]))}
                                                            for t in allc]))[0] == "sat":
                    ctx.violation("satisfiable-merge-refused", "merge(%s) of %s and %s raised ValueError although "
                                  "assumptions and guarantees together are satisfiable with margin" % (tag, sx, sy),
                                  case)
            continue
        try:
            sm = X.snap_contract(m)
        except Exception as e:  # noqa: BLE001
            ctx.violation("result-not-a-contract", "merge returned %r (%s)" % (m, e), case)
            continue
        ctx.count("outcome:%s:returned" % fam)
        ctx.count("reach:returned:" + fam)
        nontrivial = True
        judge_merge(ctx, sx, sy, sm, case, tag)
        if sample is None and len(ctx.samples) < 3:
            sample = {"case": case, "merged": sm}
    for ev in rec.roots:
        for f in M.purity_findings(ev):
            ctx.violation(f[0], f[1], case)
    ctx.case_done(case, nontrivial, sample)


def run(ctx: Ctx) -> None:
    k = 0
    for entry in corpus.load():
        cs = entry["contracts"]
        if "merging" in entry["file"] and len(cs) >= 2:
            if ctx.mine(k):
                run_case(ctx, {"family": "corpus", "file": entry["file"], "c1": cs[0], "c2": cs[1]})
            k += 1
    for _ in range(ctx.n(16000, 250000)):
        if ctx.out_of_time():
            break
        run_case(ctx, gen.merge_case(ctx.rng))


def replay(ctx: Ctx, case: Dict[str, Any]) -> None:
    run_case(ctx, case)


def blend_case(rng) -> Dict[str, Any]:
    return gen.merge_case(rng)
