"""C11 - behaviour membership and emptiness agree with exact arithmetic."""
from __future__ import annotations

from fractions import Fraction
from typing import Any, Dict, List, Optional

from pvm import exact as X
from pvm import gen, monitors as M
from pvm.core import Ctx
from pvm import probes as P

PROP = "C11"
EPS = 1.0 / 64

_rec = None


def recorder() -> P.Recorder:
    global _rec
    if _rec is None:
        _rec = P.Recorder()
        P.attach_l2(_rec, ["contains_behavior", "evaluate", "is_empty", "refines"])
    return _rec


def exact_contains(tl: List[Dict[str, Any]], beh: Dict[str, float]) -> Optional[bool]:
    """None when a constrained variable has no value."""
    pt = {v: Fraction(x) for v, x in beh.items()}
    for t in tl:
        for v, c in t["c"].items():
            if c != 0 and v not in pt:
                return None
    return all(X.eval_term(t, pt) <= 0 for t in tl)


def dyadic(rng, lo: int = -4, hi: int = 4) -> float:
    return rng.randint(lo * 8, hi * 8) / 8.0


def dterm(rng, vs: List[str]) -> Dict[str, Any]:
    k = rng.randint(1, min(3, len(vs)))
    sel = rng.sample(vs, k)
    return gen.T({v: rng.choice([-3, -2, -1, 1, 2, 3, 0.5, -0.5, 1.5, 0.25]) for v in sel}, dyadic(rng, -6, 8))


def span_term(rng, vs: List[str]) -> Dict[str, Any]:
    """One term whose coefficients span 34-40 binary orders of magnitude (2^24..2^30 next to 2^-6..2^-10): the small
    one still matters for values of a few hundred.  All data dyadic, sums stay below 53 bits."""
    big, small = rng.sample(vs, 2)
    c = {big: rng.choice([1.0, -1.0]) * 2.0 ** rng.randint(24, 30), small: rng.choice([1.0, -1.0]) * 2.0 ** -rng.randint(6, 10)}
    return gen.T(c, dyadic(rng, -6, 8))


def membership_case(rng) -> Dict[str, Any]:
    nv = rng.randint(1, 4)
    vs = gen.VN[:nv]
    terms = [dterm(rng, vs) for _ in range(rng.randint(1, 4))]
    beh = {v: dyadic(rng) for v in vs}
    if nv >= 2 and rng.random() < 0.08:
        st = span_term(rng, vs)
        terms.insert(rng.randint(0, len(terms)), st)
        small = min(st["c"], key=lambda v: abs(st["c"][v]))
        beh[small] = float(rng.choice([1000, -1000, 512, -640, 96, 8]))
    mode = rng.choice(["on", "inside", "outside", "random", "all_inside", "missing", "extra"])
    # place the point relative to one (or all) boundaries by moving constants (exact: dyadic data)
    def val(t):
        return float(sum(Fraction(c) * Fraction(beh[v]) for v, c in t["c"].items()))

    if mode in ("on", "inside", "outside"):
        for t in terms:
            t["k"] = val(t) + rng.choice([0.0, EPS, 1.0, 2.5])
        t = rng.choice(terms)
        t["k"] = val(t) + {"on": 0.0, "inside": EPS, "outside": -EPS}[mode]
    elif mode == "all_inside":
        for t in terms:
            t["k"] = val(t) + rng.choice([0.0, EPS, 1.0])
    behavior = dict(beh)
    if mode == "missing":
        used = sorted({v for t in terms for v in t["c"]})
        drop = rng.choice(used)
        behavior.pop(drop, None)
    elif mode == "extra":
        behavior["zz"] = dyadic(rng)
        for t in terms:
            t["k"] = val(t) + rng.choice([0.0, EPS, -EPS, 1.0])
    return {"kind": "membership", "mode": mode, "terms": terms, "behavior": behavior}


def emptiness_case(rng) -> Dict[str, Any]:
    nv = rng.randint(1, 4)
    vs = gen.VN[:nv]
    terms = gen.feasible_point_list(rng, vs, rng.randint(0, 3), rng.choice(["int", "dyadic"]))
    mode = rng.choice(["feasible", "gap", "gap", "unbounded", "box"])
    if mode == "gap":
        t = dterm(rng, vs) if rng.random() < 0.6 else gen.T({rng.choice(vs): rng.choice([1.0, -1.0])},
                                                            float(rng.randint(-3, 3)))
        margin = rng.choice([1.0, 1e-3, 2e-3, 0.0, -1e-3, -2e-3, -1.0, 0.125, -0.125, 1e-5, -1e-5])
        opp = {"c": {v: -c for v, c in t["c"].items()}, "k": -t["k"] + margin}
        pos = rng.randint(0, len(terms))
        terms = terms[:pos] + [t] + terms[pos:] + [opp]
        if rng.random() < 0.5:
            rng.shuffle(terms)
    elif mode == "box":
        for v in vs:
            terms += gen.bounds(rng, v, style="dyadic")
    elif mode == "unbounded":
        terms = terms[:1]
    return {"kind": "emptiness", "mode": mode, "terms": terms}


def consistency_case(rng) -> Dict[str, Any]:
    nv = rng.randint(1, 3)
    vs = gen.VN[:nv]
    pt = {v: dyadic(rng, -3, 3) for v in vs}
    left = []
    for _ in range(rng.randint(1, 4)):
        t = dterm(rng, vs)
        t["k"] = float(sum(Fraction(c) * Fraction(pt[v]) for v, c in t["c"].items())) + rng.choice([0.0, EPS, 1.0, 2.0])
        left.append(t)
    r = rng.random()
    if r < 0.6:
        right = [dict(c=dict(t["c"]), k=t["k"] + rng.choice([0.0, 0.5, 1.0])) for t in rng.sample(left, rng.randint(
            1, len(left)))]
    elif r < 0.8 and len(left) >= 2:
        a, b = rng.sample(left, 2)
        s = gen.add(a, b, 1.0, float(rng.choice([1, 2])))
        right = [s] if s else [dict(left[0])]
    else:
        right = [dterm(rng, vs) for _ in range(rng.randint(1, 2))]
    return {"kind": "consistency", "left": left, "right": right, "behavior": pt}


def run_case(ctx: Ctx, case: Dict[str, Any]) -> None:  # noqa: C901
    rec = recorder()
    rec.reset()
    kind = case["kind"]
    nontrivial = True
    if kind == "membership":
        tl = P.mk_list(case["terms"])
        beh = {P.mk_var(v): x for v, x in case["behavior"].items()}
        want = exact_contains(case["terms"], case["behavior"])
        try:
            got: Any = tl.contains_behavior(beh)
        except Exception as e:  # noqa: BLE001
            got = e
        ctx.count("membership:%s:%s" % (case["mode"], "missing-var" if want is None else want))
        if want is None:
            if not isinstance(got, ValueError):
                ctx.violation("unassigned-variable-not-reported", "contains_behavior(%s) on %s with an unassigned "
                              "constrained variable gave %r instead of ValueError" % (
                                  case["behavior"], X.fmt_list(case["terms"]), got), case)
        elif isinstance(got, Exception):
            if isinstance(got, ValueError):
                ctx.violation("spurious-valueerror", "contains_behavior(%s) on %s raised ValueError although every "
                              "constrained variable has a value" % (case["behavior"], X.fmt_list(case["terms"])), case)
            else:
                ctx.count("undocumented-exception(C14):%s" % type(got).__name__)
                ctx.violation("membership-raised:%s" % type(got).__name__, "contains_behavior(%s) on %s raised %s "
                              "instead of answering %s" % (case["behavior"], X.fmt_list(case["terms"]),
                                                           type(got).__name__, want), case)
        elif bool(got) == want:
            ctx.count("agree:membership:%s" % want)
        if not isinstance(got, Exception) and want is not None and bool(got) != want:
            ctx.violation("membership-wrong:%s" % case["mode"], "contains_behavior(%s) on %s answered %s; exact "
                          "evaluation says %s" % (case["behavior"], X.fmt_list(case["terms"]), got, want), case)
        # evaluate: the remaining list must be the substitution instance
        if want is not None and case["mode"] in ("extra", "random", "all_inside"):
            part = dict(list(case["behavior"].items())[: max(1, len(case["behavior"]) // 2)])
            try:
                res = tl.evaluate({P.mk_var(v): x for v, x in part.items()})
                sres = X.snap_list(res)
                ctx.count("evaluate:returned")
                # meaning: original at (part, rest) <=> result at rest, for all rest  (exact)
                import z3

                subst = [(X.zv(v), X.q(x)) for v, x in part.items()]
                orig = z3.substitute(X.conj(case["terms"]), *subst) if case["terms"] else z3.BoolVal(True)
                r, w = X.check(orig != X.conj(sres))
                if r == "sat":
                    ctx.violation("evaluate-wrong", "evaluate(%s) of %s returned %s, not the substitution instance" % (
                        part, X.fmt_list(case["terms"]), X.fmt_list(sres)), case, w)
            except ValueError:
                ctx.count("evaluate:ValueError")
                # justified only if some fully assigned term is violated
                pt = {v: Fraction(x) for v, x in part.items()}
                bad = any(all(v in pt for v in t["c"]) and X.eval_term(t, pt) > 0 for t in case["terms"])
                if not bad:
                    ctx.violation("evaluate-spurious-valueerror", "evaluate(%s) of %s raised ValueError although no "
                                  "fully assigned constraint is violated" % (part, X.fmt_list(case["terms"])), case)
            except Exception as e:  # noqa: BLE001
                ctx.count("undocumented-exception(C14):%s" % type(e).__name__)
    elif kind == "emptiness":
        tl = P.mk_list(case["terms"])
        try:
            got = tl.is_empty()
        except Exception as e:  # noqa: BLE001
            got = e
        feas = X.feasible(case["terms"])
        relaxed = X.feasible([{"c": t["c"], "k": t["k"] + 5e-4} for t in case["terms"]])
        if "unknown" in (feas, relaxed):
            ctx.inconclusive_case()
        else:
            cls = "nonempty" if feas == "sat" else ("empty" if relaxed == "unsat" else "band")
            ctx.count("emptiness:%s:%s" % (case["mode"], cls))
            if not isinstance(got, Exception) and cls != "band" and bool(got) == (cls == "empty"):
                ctx.count("agree:emptiness:%s" % cls)
            if isinstance(got, Exception):
                if not isinstance(got, ValueError):
                    ctx.count("undocumented-exception(C14):%s" % type(got).__name__)
                    if cls != "band":
                        ctx.violation("emptiness-raised:%s" % type(got).__name__, "is_empty(%s) raised %s on a "
                                      "clear-cut system" % (X.fmt_list(case["terms"]), type(got).__name__), case)
                elif cls != "band":
                    ctx.violation("emptiness-undecided", "is_empty(%s) raised %r on a clear-cut system" % (
                        X.fmt_list(case["terms"]), got), case)
            elif cls != "band" and bool(got) != (cls == "empty"):
                ctx.violation("emptiness-wrong:%s" % cls, "is_empty(%s) answered %s; over Q the system is %s" % (
                    X.fmt_list(case["terms"]), got, cls), case)
            nontrivial = cls != "band"
        # the same question about a list that differs in one number only (-1 <-> -2, 1 <-> 2: equal float hashes
        # in CPython): an answer must never be carried over from a look-alike asked earlier in the process
        if not case.get("_derived"):
            for old_v, new_v in ((-1.0, -2.0), (-2.0, -1.0), (1.0, 2.0)):
                twin = [dict(c=dict(t["c"]), k=t["k"]) for t in case["terms"]]
                hit = False
                for t in twin:
                    if t["k"] == old_v:
                        t["k"] = new_v
                        hit = True
                        break
                    for v, c in t["c"].items():
                        if c == old_v:
                            t["c"][v] = new_v
                            hit = True
                            break
                    if hit:
                        break
                if hit:
                    ctx.count("emptiness:look-alike-twin")
                    run_case(ctx, {"kind": "emptiness", "mode": case["mode"] + "-twin", "terms": twin,
                                   "_derived": True})
                    break
    else:
        L, R = P.mk_list(case["left"]), P.mk_list(case["right"])
        beh = {P.mk_var(v): x for v, x in case["behavior"].items()}
        try:
            ref = L.refines(R)
            inl = L.contains_behavior(beh)
            inr = R.contains_behavior(beh)
        except Exception as e:  # noqa: BLE001
            ctx.count("consistency:raised:%s" % type(e).__name__)
            ctx.case_done(case, False)
            return
        ctx.count("consistency:refines=%s:inL=%s:inR=%s" % (bool(ref), bool(inl), bool(inr)))
        if ref and inl and not inr:
            ctx.violation("inconsistent-with-refinement", "%s refines %s and contains %s, but the right side does not "
                          "contain it" % (X.fmt_list(case["left"]), X.fmt_list(case["right"]), case["behavior"]), case)
        want = exact_contains(case["left"], case["behavior"])
        if want is not None and bool(inl) != want:
            ctx.violation("membership-wrong:consistency", "contains_behavior answered %s, exact %s" % (inl, want), case)
    for ev in rec.events():
        if ev.mutated:
            ctx.violation("mutated-operand:%s" % ev.op, "%s modified %s" % (ev.op, ev.mutated), case)
    sample = None
    if len(ctx.samples) < 3 and kind == "membership":
        sample = {"case": case}
    ctx.case_done(case, nontrivial, sample)


def gen_case(rng) -> Dict[str, Any]:
    r = rng.random()
    if r < 0.55:
        return membership_case(rng)
    if r < 0.85:
        return emptiness_case(rng)
    return consistency_case(rng)


def blend_case(rng) -> Dict[str, Any]:
    return gen_case(rng)


def run(ctx: Ctx) -> None:
    for _ in range(ctx.n(50000, 800000)):
        if ctx.out_of_time():
            break
        run_case(ctx, gen_case(ctx.rng))


def replay(ctx: Ctx, case: Dict[str, Any]) -> None:
    run_case(ctx, case)
