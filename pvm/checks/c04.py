"""C04 - variable elimination is implication-preserving for every tactic order."""
from __future__ import annotations

import traceback
from typing import Any, Dict

from pvm import exact as X
from pvm import gen, monitors as M
from pvm.core import Ctx
from pvm import probes as P

PROP = "C04"

_rec = None


def recorder() -> P.Recorder:
    global _rec
    if _rec is None:
        _rec = P.Recorder()
        P.attach_l1(_rec)
        P.attach_l2(_rec, ["elim_vars_by_refining", "elim_vars_by_relaxing"])
    return _rec


def judge_forest(ctx: Ctx, rec: P.Recorder, case: Any, prop_filter=None) -> Dict[str, Any]:
    """Judge every L1/L2 elimination event recorded for one case. Returns summary info."""
    judged: Dict[int, list] = {}
    info = {"nonvacuous": False, "tactics": [], "l1": 0, "l2": 0}
    evs = list(rec.events())
    # L1 first (attribution needs it)
    for ev in evs:
        if ev.op == "transform_term":
            ctx.count("events:transform_term")
            info["l1"] += 1
            tag, fs = M.judge_transform_term(ev)
            judged[ev.eid] = fs
            mode = "refine" if ev.args.get("refine") else "relax"
            if tag and tag.startswith("tactic="):
                ctx.count("reach:%s:accepted:%s" % (tag.replace("=", ""), mode))
                info["tactics"].append(tag)
            elif tag == "declined":
                ctx.count("reach:dispatcher-declined:" + mode)
            for f in fs:
                if f is None:
                    ctx.inconclusive_case("l1")
                else:
                    ctx.violation(f[0], f[1], case, f[2])
        elif ev.op.startswith("tactic"):
            mode = "refine" if ev.args.get("refine") else "relax"
            if ev.out == "ret":
                r0 = ev.res[0] if isinstance(ev.res, list) and ev.res else None
                ctx.count("raw:%s:%s:%s" % (ev.op, "term" if r0 is not None else "none", mode))
            else:
                ctx.count("raw:%s:raise-%s:%s" % (ev.op, ev.exc, mode))
                if ev.exc != "ValueError" and ev.exc != "IncompatibleArgsError":
                    # a tactic may only return a term, None, or raise ValueError
                    ctx.violation("exc:%s@%s" % (ev.exc, ev.exc_where),
                                  "%s raised %s (only ValueError may signal a decline)" % (ev.op, ev.exc), case)
    for ev in evs:
        if ev.op in ("PTL.elim_vars_by_refining", "PTL.elim_vars_by_relaxing"):
            ctx.count("events:" + ev.op)
            info["l2"] += 1
            nonvac, fs = M.judge_elim(ev)
            info["nonvacuous"] = info["nonvacuous"] or nonvac
            if ev.out == "raise":
                ctx.count("outcome:%s:%s" % (ev.op.split("_")[-1], ev.exc))
            else:
                ctx.count("outcome:%s:returned" % ev.op.split("_")[-1])
            for f in fs:
                if f is None:
                    ctx.inconclusive_case("l2")
                elif f[0] == "list-level":
                    mech = M.attribute(ev, judged) or "list-level"
                    ctx.violation(mech, f[1], case, f[2])
                else:
                    ctx.violation(f[0], f[1], case, f[2])
            if ev.mutated:
                ctx.violation("mutated-operand", "%s modified its argument(s) %s" % (ev.op, ev.mutated), case)
    return info


def run_case(ctx: Ctx, case: Dict[str, Any]) -> None:
    rec = recorder()
    rec.reset()
    terms = P.mk_list(case["terms"])
    cx = P.mk_list(case["ctx"])
    elim = [P.mk_var(v) for v in case["elim"]]
    order = case.get("order")
    kw: Dict[str, Any] = {"simplify": case["simplify"]}
    if order is not None:
        kw["tactics_order"] = list(order)
    try:
        if case["refine"]:
            terms.elim_vars_by_refining(cx, elim, **kw)
        else:
            terms.elim_vars_by_relaxing(cx, elim, **kw)
    except Exception:  # noqa: BLE001  judged from the event
        pass
    info = judge_forest(ctx, rec, case)
    fam = case.get("family", "?")
    ctx.count("family:" + fam)
    nontrivial = info["l1"] > 0 and info["l2"] > 0
    sample = None
    if nontrivial and info["tactics"] and len(ctx.samples) < 3:
        ev = rec.roots[0]
        sample = {"case": case, "outcome": ev.out, "result": ev.res if ev.out == "ret" else ev.exc,
                  "accepted": info["tactics"]}
    ctx.case_done(case, nontrivial, sample)


def run(ctx: Ctx) -> None:
    # E: the complete two-variable grid (thorough: all of it; quick: a fixed 1/4 stride, rotated by seed)
    grid = gen.elim_grid()
    stride = 1 if not ctx.quick() else 4
    off = ctx.seed % stride
    k = 0
    for idx, case in enumerate(grid):
        if idx % stride != off:
            continue
        k += 1
        if not ctx.mine(k):
            continue
        run_case(ctx, case)
        ctx.count("grid2_cases")
    for case in gen.elim_grid3(ctx.rng, ctx.n(4000, 60000)):
        run_case(ctx, case)
    # G: random families
    n = ctx.n(24000, 600000)
    for _ in range(n):
        if ctx.out_of_time():
            break
        run_case(ctx, gen.elim_case(ctx.rng))


def replay(ctx: Ctx, case: Dict[str, Any]) -> None:
    run_case(ctx, case)


def blend_case(rng) -> Dict[str, Any]:
    return gen.elim_case(rng)
