"""C01 - composition returns a sound abstraction of the exact composition."""
from __future__ import annotations

import itertools
from typing import Any, Dict, List, Optional

from pvm import corpus, exact as X
from pvm import gen, monitors as M
from pvm.core import Ctx
from pvm import probes as P

PROP = "C01"

_rec = None


def recorder() -> P.Recorder:
    global _rec
    if _rec is None:
        _rec = P.Recorder()
        P.attach_l1(_rec)
        P.attach_l2(_rec, ["elim_vars_by_refining", "elim_vars_by_relaxing"])
        P.attach_l3(_rec, ioc=["compose_tactics"], pic=[])
    return _rec


def branch_of(s1: Dict[str, Any], s2: Dict[str, Any]) -> str:
    self_helps_other = bool(set(s1["out"]) & set(s2["in"]))
    other_helps_self = bool(set(s2["out"]) & set(s1["in"]))
    if self_helps_other and other_helps_self:
        return "cycle"
    if self_helps_other:
        return "self-helps-other"
    if other_helps_self:
        return "other-helps-self"
    return "neither"


def build(ctx: Ctx, c: Dict[str, Any]) -> Optional[Any]:
    try:
        return P.mk_contract(c, simplify=True)
    except ValueError:
        ctx.count("gen:operand-construction-rejected")
        return None


def run_case(ctx: Ctx, case: Dict[str, Any]) -> None:  # noqa: C901
    rec = recorder()
    rec.reset()
    rec.enabled = False
    c1 = build(ctx, case["c1"])
    c2 = build(ctx, case["c2"]) if c1 is not None else None
    rec.enabled = True
    if c1 is None or c2 is None:
        ctx.case_done(case, False)
        return
    s1, s2 = X.snap_contract(c1), X.snap_contract(c2)
    kw: Dict[str, Any] = {}
    if case.get("order") is not None:
        kw["tactics_order"] = list(case["order"])
    try:
        res = c1.compose_tactics(c2, list(case.get("keep") or []), case.get("simplify", True), **kw)
        outcome = "ret"
    except Exception as e:  # noqa: BLE001
        res = e
        outcome = "raise"
    wiring = case.get("wiring", "?")
    br = branch_of(s1, s2)
    top = None
    for ev in rec.roots:
        if ev.op == "IoContract.compose_tactics":
            top = ev
    nontrivial = False
    sample = None
    if outcome == "raise":
        en = type(res).__name__
        ctx.count("outcome:%s:%s" % (wiring, en))
        if not isinstance(res, ValueError):
            # C01 speaks about returned results only; undocumented exception types are C14's business
            # (the C14 check runs this same workload under its exception classifier)
            ctx.count("undocumented-exception(C14):%s@%s" % (en, P.exc_origin(res)))
        elif en == "IncompatibleArgsError":
            ctx.count("reach:rejected:" + ("feedback" if "feedback" in str(res) else
                                           "keep" if "keep" in str(res) else
                                           "eliminate" if "eliminate" in str(res) else "other"))
    else:
        try:
            sc = X.snap_contract(res[0])
        except Exception as e:  # noqa: BLE001
            ctx.violation("result-not-a-contract", "compose returned %r (%s)" % (res, e), case)
            ctx.case_done(case, False)
            return
        ctx.count("outcome:%s:returned" % wiring)
        ctx.count("reach:returned:wiring:" + wiring)
        ctx.count("reach:returned:branch:" + br)
        ctx.count("reach:returned:simplify=%s" % bool(case.get("simplify", True)))
        ctx.count("reach:returned:keep=%s" % bool(case.get("keep")))
        used = sorted(set(M.tactics_accepted(top))) if top is not None else []
        for k in used:
            ctx.count("reach:returned:tactic%d" % k)
        nontrivial = True
        r, w = M.compose_obligation(s1, s2, sc)
        if r == "unknown":
            ctx.inconclusive_case()
        elif r == "sat":
            mech = (M.attribute_tactics(top) if top is not None else None) or "algebra"
            ctx.violation(mech, "composition of %s and %s (keep=%s simplify=%s order=%s) returned %s: at the witness "
                          "the result's assumptions hold and both components honour their contracts, yet an "
                          "assumption of a component or a guarantee of the result is violated" % (
                              s1, s2, case.get("keep"), case.get("simplify"), case.get("order"), sc), case, w)
        wf = M.wellformed(sc)
        if wf:
            ctx.violation("ill-formed-result", "composition result is ill formed: %s" % wf, case)
        if len(ctx.samples) < 3 and used:
            sample = {"case": case, "result": sc, "tactics_accepted": used, "branch": br}
    if top is not None:
        for f in M.purity_findings(top):
            ctx.violation(f[0], f[1], case)
    ctx.case_done(case, nontrivial, sample)


def corpus_cases(ctx: Ctx) -> List[Dict[str, Any]]:
    out = []
    orders = [None, [1], [2], [3], [4], [5], [5, 4, 3, 2, 1], [2, 1]]
    for entry in corpus.load():
        cs = entry["contracts"]
        if "composition" not in entry["file"] and "examples" not in entry["file"]:
            continue
        pairs = [(0, 1), (1, 0)] if len(cs) >= 2 else []
        for (i, j) in pairs:
            for order in orders:
                for simp in (True, False):
                    out.append({"wiring": "corpus", "style": "corpus", "file": entry["file"], "c1": cs[i],
                                "c2": cs[j], "keep": [], "simplify": simp, "order": order})
    return out


def run(ctx: Ctx) -> None:
    # R: the repository's stored compositions under every tactic order, both call orders
    cc = corpus_cases(ctx)
    for idx, case in enumerate(cc):
        if ctx.mine(idx):
            run_case(ctx, case)
            ctx.count("corpus_cases")
    # R': seeded perturbations of the corpus
    ents = [e for e in corpus.load() if len(e["contracts"]) >= 2]
    for _ in range(ctx.n(600, 10000)):
        if not ents or ctx.out_of_time():
            break
        e = ctx.rng.choice(ents)
        i, j = ctx.rng.sample(range(min(2, len(e["contracts"]))), 2)
        case = {"wiring": "corpus-perturbed", "style": "corpus", "file": e["file"],
                "c1": corpus.perturb(ctx.rng, e["contracts"][i]), "c2": corpus.perturb(ctx.rng, e["contracts"][j]),
                "keep": [], "simplify": ctx.rng.random() < 0.6, "order": gen.rorder(ctx.rng)}
        run_case(ctx, case)
    # seed-independent core: one case per wiring so that every reach counter is fed
    for k, w in enumerate(gen.WIRINGS):
        if ctx.mine(k):
            import random

            r = random.Random(1234 + k)
            for _ in range(40):
                run_case(ctx, gen.compose_case(r, w))
    # E: the elimination families of C04 dressed as compositions (producer = context, consumer assumes the terms)
    for _ in range(ctx.n(2500, 40000)):
        if ctx.out_of_time():
            break
        run_case(ctx, gen.compose_from_elim(ctx.rng))
    # G: generated
    for _ in range(ctx.n(9000, 150000)):
        if ctx.out_of_time():
            break
        run_case(ctx, gen.compose_case(ctx.rng))


def replay(ctx: Ctx, case: Dict[str, Any]) -> None:
    run_case(ctx, case)


def blend_case(rng) -> Dict[str, Any]:
    return gen.compose_case(rng)
