"""C18 - plot vertices are exactly the corners of the plotted slice."""
from __future__ import annotations

import itertools
import math
from fractions import Fraction as F
from typing import Any, Dict, List, Optional, Set, Tuple

from pvm import exact as X
from pvm import gen
from pvm.core import Ctx
from pvm import probes as P

PROP = "C18"
TOL = 1e-6

Row = Tuple[F, F, F]


def slice_rows(case: Dict[str, Any]) -> Tuple[Optional[List[Row]], Optional[str]]:
    """2-D rows a*x + b*y <= c of the slice; (None, reason) when the request itself must be refused."""
    xv, yv = case["x"], case["y"]
    vals = {v: F(x) for v, x in case["values"].items()}
    rows: List[Row] = []
    for t in case["terms"]:
        a = F(t["c"].get(xv, 0.0))
        b = F(t["c"].get(yv, 0.0))
        c = F(t["k"])
        for v, co in t["c"].items():
            if v in (xv, yv) or co == 0:
                continue
            if v not in vals:
                return None, "missing-value"
            c -= F(co) * vals[v]
        rows.append((a, b, c))
    (x0, x1), (y0, y1) = case["xlim"], case["ylim"]
    rows += [(F(1), F(0), F(x1)), (F(-1), F(0), F(-x0)), (F(0), F(1), F(y1)), (F(0), F(-1), F(-y0))]
    return rows, None


def exact_corners(rows: List[Row]) -> Set[Tuple[F, F]]:
    if any(a == 0 and b == 0 and c < 0 for a, b, c in rows):
        return set()
    rows2 = [r for r in rows if not (r[0] == 0 and r[1] == 0)]
    pts: Set[Tuple[F, F]] = set()
    for (a1, b1, c1), (a2, b2, c2) in itertools.combinations(rows2, 2):
        det = a1 * b2 - a2 * b1
        if det == 0:
            continue
        x = (c1 * b2 - c2 * b1) / det
        y = (a1 * c2 - a2 * c1) / det
        if all(a * x + b * y <= c for a, b, c in rows2):
            pts.add((x, y))
    return pts


def hull_order(pts: List[Tuple[float, float]]) -> List[Tuple[float, float]]:
    cx = sum(p[0] for p in pts) / len(pts)
    cy = sum(p[1] for p in pts) / len(pts)
    return sorted(pts, key=lambda p: math.atan2(p[1] - cy, p[0] - cx))


def close(p, q) -> bool:
    return abs(p[0] - q[0]) <= TOL and abs(p[1] - q[1]) <= TOL


def dedupe(seq: List[Tuple[float, float]]) -> List[Tuple[float, float]]:
    out: List[Tuple[float, float]] = []
    for p in seq:
        if not any(close(p, q) for q in out):
            out.append(p)
    return out


def is_rotation(seq, ref) -> bool:
    n = len(ref)
    if len(seq) != n:
        return False
    for orient in (ref, list(reversed(ref))):
        for s in range(n):
            if all(close(seq[i], orient[(i + s) % n]) for i in range(n)):
                return True
    return False


def run_case(ctx: Ctx, case: Dict[str, Any]) -> None:  # noqa: C901
    if P.plots_mod is None:
        ctx.monitor_error("pacti.utils.plots cannot be imported")
        return
    rows, refuse = slice_rows(case)
    tl = P.mk_list(case["terms"])
    xv, yv = P.mk_var(case["x"]), P.mk_var(case["y"])
    vals = {P.mk_var(v): x for v, x in case["values"].items()}
    before = X.canon(X.snap_list(tl))
    try:
        res = P.plots_mod.constraints_to_vertices(tl, xv, yv, vals, tuple(case["xlim"]), tuple(case["ylim"]))
        out = "returned"
    except ValueError as e:
        res = e
        out = "ValueError"
    except Exception as e:  # noqa: BLE001
        res = e
        out = type(e).__name__
    if X.canon(X.snap_list(tl)) != before:
        ctx.violation("mutated-operand", "constraints_to_vertices modified its constraint list", case)
    if refuse:
        ctx.count("refuse:%s:%s" % (refuse, out))
        if out != "ValueError":
            ctx.violation("missing-value-not-reported", "a needed variable has no value but constraints_to_vertices %s"
                          % ("returned" if out == "returned" else "raised " + out), case)
        ctx.case_done(case, True)
        return
    corners = exact_corners(rows)
    n = len(corners)
    shape = "empty" if n == 0 else "point" if n == 1 else "segment" if n == 2 else "polygon%d" % n
    ctx.count("slice:%s:%s" % (shape if n < 9 else "polygon9+", out))
    if n == 0:
        if out != "ValueError":
            ctx.violation("empty-slice-not-reported", "the slice is empty but constraints_to_vertices %s" % (
                "returned %r" % (res,) if out == "returned" else "raised " + out), case)
        ctx.case_done(case, True)
        return
    if out != "returned":
        ctx.violation("nonempty-slice-%s" % ("refused" if out == "ValueError" else "raised:" + out),
                      "the slice has %d corner(s) %s but constraints_to_vertices raised %s: %s" % (
                          n, sorted((float(a), float(b)) for a, b in corners), out, str(res)[:120]), case)
        ctx.case_done(case, True)
        return
    try:
        xs, ys = res
        got = [(float(a), float(b)) for a, b in zip(xs, ys)]
    except Exception as e:  # noqa: BLE001
        ctx.violation("result-malformed", "constraints_to_vertices returned %r (%s)" % (res, e), case)
        ctx.case_done(case, True)
        return
    exact = [(float(a), float(b)) for a, b in corners]
    missing = [e for e in exact if not any(close(g, e) for g in got)]
    extra = [g for g in got if not any(close(g, e) for e in exact)]
    if missing:
        ctx.violation("corner-missing", "corners %s of the slice are missing from the result %s" % (missing, got), case)
    if extra:
        ctx.violation("non-corner-returned", "points %s are not corners of the slice (corners: %s)" % (extra,
                                                                                                     sorted(exact)), case)
    for g in got:
        gx, gy = F(g[0]), F(g[1])
        for a, b, c in rows:
            if a * gx + b * gy > c + F(TOL) * (1 + abs(c)) * (1 + abs(a) + abs(b)):
                ctx.violation("point-violates-constraint", "returned point %s violates %s*x + %s*y <= %s" % (
                    g, float(a), float(b), float(c)), case)
                break
    d = dedupe(got)
    if len(d) != len(got):
        ctx.count("duplicates-in-result:%s" % ("degenerate" if n < 3 else "polygon"))
    if n >= 3 and not missing and not extra:
        if not is_rotation(d, hull_order(exact)):
            ctx.violation("not-angular-order", "the corners are returned as %s, which is not a rotation of the "
                          "angular order %s" % (d, hull_order(exact)), case)
    sample = None
    if len(ctx.samples) < 3 and n >= 4:
        sample = {"case": case, "returned": got, "exact_corners": sorted(exact)}
    ctx.case_done(case, True, sample)


def gen_case(rng) -> Dict[str, Any]:
    nv = rng.randint(2, 4)
    vs = ["x", "y", "u", "v"][:nv]
    mode = rng.choice(["random", "random", "many_sides", "degenerate", "empty", "missing", "random"])
    terms = [gen.rterm(rng, vs, 3, "int", lo=-6, hi=9) for _ in range(rng.randint(1, 4))]
    values = {v: float(rng.randint(-3, 3)) for v in vs[2:]}
    xl = sorted(rng.sample(range(-5, 6), 2))
    yl = sorted(rng.sample(range(-5, 6), 2))
    xv, yv = ("x", "y") if rng.random() < 0.5 else ("y", "x")
    if mode == "many_sides":
        # an octagon-like region cut by the limits
        terms = []
        for (a, b) in [(1, 1), (1, -1), (-1, 1), (-1, -1), (2, 1), (-1, 2), (1, -2), (-2, -1)][: rng.randint(4, 8)]:
            terms.append(gen.T({"x": float(a), "y": float(b)}, float(rng.randint(3, 7))))
        xl, yl = [-5, 5], [-5, 5]
        if rng.random() < 0.5:
            xl = [-rng.randint(2, 5), rng.randint(2, 5)]
    elif mode == "degenerate":
        t = gen.rterm(rng, ["x", "y"], 2, "int", lo=-3, hi=3)
        terms = [t, {"c": {v: -c for v, c in t["c"].items()}, "k": -t["k"]}]
        if rng.random() < 0.4:
            t2 = gen.rterm(rng, ["x", "y"], 2, "int", lo=-3, hi=3)
            terms += [t2, {"c": {v: -c for v, c in t2["c"].items()}, "k": -t2["k"]}]
    elif mode == "empty":
        t = gen.rterm(rng, ["x", "y"], 2, "int", lo=-3, hi=3)
        terms += [t, {"c": {v: -c for v, c in t["c"].items()}, "k": -t["k"] - float(rng.randint(1, 3))}]
    elif mode == "missing" and values:
        values.pop(rng.choice(list(values)))
    return {"mode": mode, "terms": terms, "x": xv, "y": yv, "values": values, "xlim": xl, "ylim": yl}


def blend_case(rng) -> Dict[str, Any]:
    return gen_case(rng)


def run(ctx: Ctx) -> None:
    import warnings

    warnings.filterwarnings("ignore")
    for _ in range(ctx.n(16000, 300000)):
        if ctx.out_of_time():
            break
        run_case(ctx, gen_case(ctx.rng))


def replay(ctx: Ctx, case: Dict[str, Any]) -> None:
    run_case(ctx, case)
