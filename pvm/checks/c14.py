"""C14 - failures are reported only through the documented exceptions."""
from __future__ import annotations

import copy as _copy
import importlib
import json
import os
import shutil
import tempfile
from typing import Any, Callable, Dict, Iterable, List, Optional, Tuple

from pvm import exact as X
from pvm import gen, monitors as M
from pvm.core import Ctx
from pvm import probes as P

PROP = "C14"

# (module, weight): workloads of the other checks, executed under C14's exception classifier
BLEND = [("c01", 3), ("c02", 3), ("c03", 2), ("c04", 4), ("c08", 1), ("c09", 2), ("c12", 2), ("c15", 1),
         ("c19", 1)]
OPTIONAL_BLEND = [("c06", 2), ("c07", 2), ("c10", 2), ("c11", 2), ("c16", 2), ("c17", 2), ("c18", 2), ("c13", 1)]

_rec = None
_mods: Dict[str, Any] = {}


def recorder() -> P.Recorder:
    global _rec
    if _rec is None:
        _rec = P.Recorder()
        _rec.keep_raw = True
        P.attach_public(_rec)
    return _rec


def blend_modules() -> List[Tuple[str, Any, int]]:
    out = []
    for name, w in BLEND + OPTIONAL_BLEND:
        if name not in _mods:
            try:
                _mods[name] = importlib.import_module("pvm.checks." + name)
            except ImportError:
                _mods[name] = None
        if _mods[name] is not None and hasattr(_mods[name], "blend_case"):
            out.append((name, _mods[name], w))
    return out


def usable(o: Any) -> Optional[str]:
    """An operand is usable after a failed call when copying it still works."""
    cp = getattr(o, "copy", None)
    if cp is None or not callable(cp):
        return None
    if isinstance(o, (dict, list, set)):
        return None
    try:
        if isinstance(o, P.NestedTermList):
            o.copy(False)
        else:
            o.copy()
    except ValueError:
        # documented: copying re-simplifies, an unsatisfiable contract is refused the same way it always was
        return None
    except Exception as e:  # noqa: BLE001
        return "%s: copy() raised %s" % (type(o).__name__, type(e).__name__)
    return None


def classify_roots(ctx: Ctx, rec: P.Recorder, case: Any, source: str) -> int:
    """Classify the exception type of every top-level public call recorded for this case."""
    n = 0
    for ev in rec.roots:
        n += 1
        ctx.count("calls:" + ev.op)
        if ev.out != "raise":
            continue
        allow = P.op_allows(ev.op)
        ctx.count("raised:%s:%s" % (ev.op, ev.exc))
        # a refusal that started as IncompatibleArgsError and leaves as a different class: the documented class
        # of that failure (interface problem / variables that cannot be eliminated) was lost on the way out
        eo = ev.exc_obj
        inner = getattr(eo, "__cause__", None) or getattr(eo, "__context__", None)
        if eo is not None and inner is not None and type(inner).__name__ == "IncompatibleArgsError" \
                and type(eo).__name__ != "IncompatibleArgsError":
            ctx.violation("refusal-class-lost:%s:IncompatibleArgsError-became-%s" % (ev.op, ev.exc),
                          "%s refused with IncompatibleArgsError (%s) but the caller receives %s" % (
                              ev.op, str(inner)[:160], ev.exc), {"source": source, "case": case})
        ctx.count("refusal-chain-inspected")
        if not M.is_documented(ev.exc, strings=allow["strings"], dicts=allow["dicts"]):
            ctx.violation("exc:%s@%s" % (ev.exc, ev.exc_where),
                          "%s escaped from %s (workload %s): %s" % (ev.exc, ev.op, source, str(ev.exc_obj)[:200]),
                          {"source": source, "case": case})
        if ev.mutated and not ev.op.endswith("__init__"):
            ctx.violation("operand-changed-by-failed-call:%s" % ev.op,
                          "%s raised %s and left its argument(s) %s modified" % (ev.op, ev.exc, ev.mutated),
                          {"source": source, "case": case})
        rec.enabled = False
        try:
            for name, o in ev.raw_args.items():
                if name == "self" and ev.op.endswith("__init__"):
                    continue
                why = usable(o)
                if why:
                    ctx.violation("operand-unusable-after-error:%s" % ev.op,
                                  "after %s raised %s, operand %s is unusable: %s" % (ev.op, ev.exc, name, why),
                                  {"source": source, "case": case})
        finally:
            rec.enabled = True
    return n


def run_blend_case(ctx: Ctx, name: str, mod: Any, case: Dict[str, Any]) -> None:
    rec = recorder()
    rec.reset()
    sub = Ctx(name.upper(), ctx.tier, ctx.seed, ctx.shard, ctx.nshards)
    sub.rng = ctx.rng
    try:
        mod.run_case(sub, case)
    except Exception as e:  # noqa: BLE001  a crash of the other check's harness is not a verdict on pacti
        ctx.count("blend-harness-error:%s:%s" % (name, type(e).__name__))
    n = classify_roots(ctx, rec, case, name)
    ctx.count("blend:" + name)
    ctx.case_done({"blend": name, "case": case}, n > 0)


# ----------------------------------------------------------------------------------------------
# family A: adversarial shapes driven directly through the public operations


def adversarial_lists(rng) -> Dict[str, Any]:  # noqa: C901
    style = rng.choice(["int", "dyadic"])
    kind = rng.choice(["empty", "single", "unbounded_ctx", "too_many_elim", "cancel", "equalities", "zero_consts",
                       "infeasible", "thin", "varfree", "duplicates", "parallel"])
    vs = gen.VN[: rng.randint(1, 4)]
    terms: List[Dict[str, Any]] = gen.rlist(rng, vs, rng.randint(1, 3), 3, style)
    ctx_: List[Dict[str, Any]] = gen.rlist(rng, vs, rng.randint(0, 3), 3, style)
    elim = rng.sample(vs, rng.randint(1, len(vs)))
    if kind == "empty":
        r = rng.random()
        if r < 0.4:
            terms = []
        elif r < 0.7:
            ctx_ = []
        else:
            terms, ctx_ = [], []
    elif kind == "single":
        v = vs[0]
        terms = [gen.T({v: gen.coef(rng, style)}, gen.const(rng, style))]
        ctx_ = [gen.T({v: gen.coef(rng, style)}, gen.const(rng, style)) for _ in range(rng.randint(0, 2))]
        elim = [v]
    elif kind == "unbounded_ctx":
        ctx_ = [gen.T({v: 1.0}, gen.const(rng, style)) for v in vs[:1]]
    elif kind == "too_many_elim":
        vs = gen.VN[:5]
        terms = [gen.rterm(rng, vs, 4, style)]
        ctx_ = gen.rlist(rng, vs, 1, 2, style)
        elim = vs[:4]
    elif kind == "cancel":
        a, b = (vs + ["b"])[:2]
        terms = [gen.T({a: 1.0, b: -1.0}, gen.const(rng, style))]
        ctx_ = [gen.T({a: 1.0, b: -1.0}, 0.0), gen.T({a: -1.0, b: 1.0}, 0.0)]
        elim = [a]
    elif kind == "equalities":
        t = gen.rterm(rng, vs, 2, style)
        ctx_ = [t, gen.scale(t, -1.0)]
    elif kind == "zero_consts":
        for t in terms + ctx_:
            t["k"] = rng.choice([0.0, -0.0])
    elif kind == "infeasible":
        t = gen.rterm(rng, vs, 2, style)
        ctx_ += [t, {"c": {v: -c for v, c in t["c"].items()}, "k": -t["k"] - 1.0}]
    elif kind == "thin":
        t = gen.rterm(rng, vs, 2, style)
        eps = rng.choice([0.0, 1e-9, 1e-7, 1e-5, 1e-3])
        ctx_ += [t, {"c": {v: -c for v, c in t["c"].items()}, "k": -t["k"] + eps * rng.choice([1, -1])}]
    elif kind == "varfree":
        # terms without variables only arise inside pacti (cancelling renames / substitutions); feed them back
        k = rng.choice([1.0, 0.0, -1.0])
        extra = {"c": {}, "k": k}
        if rng.random() < 0.5:
            ctx_.append(extra)
        else:
            terms.append(extra)
    elif kind == "duplicates":
        terms = terms + [dict(c=dict(t["c"]), k=t["k"]) for t in terms]
        ctx_ = ctx_ + [dict(c=dict(t["c"]), k=t["k"]) for t in ctx_]
    elif kind == "parallel":
        t = gen.rterm(rng, vs, 2, style)
        ctx_ += [dict(c=dict(t["c"]), k=t["k"] + d) for d in (0.0, 1.0, -1.0)]
    return {"kind": kind, "terms": terms, "ctx": ctx_, "elim": elim, "simplify": rng.random() < 0.5,
            "order": gen.rorder(rng), "behavior": {v: float(rng.randint(-3, 3)) for v in vs if rng.random() < 0.8}}


def run_adversarial(ctx: Ctx, case: Dict[str, Any]) -> None:
    rec = recorder()
    rec.reset()
    tl = P.mk_list(case["terms"])
    cx = P.mk_list(case["ctx"])
    elim = [P.mk_var(v) for v in case["elim"]]
    kw: Dict[str, Any] = {"simplify": case["simplify"]}
    if case.get("order") is not None:
        kw["tactics_order"] = list(case["order"])
    beh = {P.mk_var(v): x for v, x in case["behavior"].items()}
    ops: List[Callable[[], Any]] = [
        lambda: tl.elim_vars_by_refining(cx, elim, **kw),
        lambda: tl.elim_vars_by_relaxing(cx, elim, **kw),
        lambda: tl.simplify(cx),
        lambda: tl.simplify(),
        lambda: tl.refines(cx),
        lambda: cx.refines(tl),
        lambda: tl.is_empty(),
        lambda: (tl | cx).is_empty(),
        lambda: tl.contains_behavior(beh),
        lambda: tl.to_str_list(),
        lambda: (tl | cx).optimize({elim[0]: 1.0}, True),
        lambda: (tl | cx).optimize({elim[0]: 1.0}, False),
    ]
    for op in ops:
        try:
            op()
        except Exception:  # noqa: BLE001  classified from the event
            pass
    n = classify_roots(ctx, rec, case, "adversarial:" + case["kind"])
    ctx.count("adversarial:" + case["kind"])
    ctx.case_done(case, n > 0)


def adversarial_contracts(rng) -> Dict[str, Any]:
    """Contract-level adversarial shapes: empty lists, single variables, everything eliminated, no context."""
    kind = rng.choice(["empty_g", "empty_a", "no_inputs", "no_outputs", "all_internal", "unbounded", "plain"])
    style = rng.choice(["int", "dyadic"])
    wk, i1, o1, i2, o2 = gen.wiring(rng, rng.choice(["cascade", "cascade_rev", "fan", "mixed", "shared_in"]))
    c1 = gen.rcontract(rng, i1, o1, style)
    c2 = gen.rcontract(rng, i2, o2, style)
    if kind == "empty_g":
        rng.choice([c1, c2])["g"] = []
    elif kind == "empty_a":
        c1["a"] = []
        c2["a"] = []
    elif kind == "no_inputs":
        c1 = {"in": [], "out": o1, "a": [], "g": gen.rlist(rng, o1, rng.randint(1, 2), 2, style)}
    elif kind == "no_outputs":
        c2 = {"in": i2, "out": [], "a": gen.rlist(rng, i2, rng.randint(0, 2), 2, style), "g": []}
    elif kind == "unbounded":
        c1["a"] = []
        c1["g"] = [gen.rterm(rng, i1 + o1, 2, style, must=o1)]
    return {"kind": kind, "wiring": wk, "c1": c1, "c2": c2, "simplify": rng.random() < 0.5, "order": gen.rorder(rng),
            "keep": [rng.choice(o1 + o2)] if rng.random() < 0.3 else []}


def run_adversarial_contracts(ctx: Ctx, case: Dict[str, Any]) -> None:
    rec = recorder()
    rec.reset()
    try:
        c1 = P.mk_contract(case["c1"], simplify=True)
        c2 = P.mk_contract(case["c2"], simplify=True)
    except Exception:  # noqa: BLE001
        classify_roots(ctx, rec, case, "adversarial-contract:" + case["kind"])
        ctx.case_done(case, False)
        return
    kw: Dict[str, Any] = {}
    if case.get("order") is not None:
        kw["tactics_order"] = list(case["order"])
    ops: List[Callable[[], Any]] = [
        lambda: c1.compose_tactics(c2, list(case["keep"]), case["simplify"], **kw),
        lambda: c2.compose_tactics(c1, list(case["keep"]), case["simplify"], **kw),
        lambda: c1.compose(c2),
        lambda: c1.quotient_tactics(c2, None, case["simplify"], **kw),
        lambda: c2.quotient_tactics(c1, None, case["simplify"], **kw),
        lambda: c1.merge(c2),
        lambda: c1.copy(),
        lambda: c1.to_dict(),
        lambda: c2.to_machine_dict(),
    ]
    for op in ops:
        try:
            r = op()
            if isinstance(r, tuple) and r and hasattr(r[0], "quotient_tactics") and ctx.rng.random() < 0.5:
                # feed the result back: divide the composition by an operand
                try:
                    r[0].quotient_tactics(c1, None, case["simplify"], **kw)
                except Exception:  # noqa: BLE001
                    pass
        except Exception:  # noqa: BLE001
            pass
    n = classify_roots(ctx, rec, case, "adversarial-contract:" + case["kind"])
    ctx.count("adversarial-contract:" + case["kind"])
    ctx.case_done(case, n > 0)


# ----------------------------------------------------------------------------------------------
# dictionary faults (enumerated exhaustively)

MACH = {"input_vars": ["i", "j"], "output_vars": ["o"],
        "assumptions": [{"constant": 1.0, "coefficients": {"i": 1.0}},
                        {"constant": 2.0, "coefficients": {"i": -1.0, "j": 0.5}}],
        "guarantees": [{"constant": 2.0, "coefficients": {"o": 1.0, "i": -1.0}}]}
HUM = {"input_vars": ["i", "j"], "output_vars": ["o"], "assumptions": ["i <= 1", "-i + 0.5 j <= 2"],
       "guarantees": ["o - i <= 2"]}
KINDS: List[Tuple[str, Any]] = [("null", None), ("bool", True), ("number", 3), ("number", 1.5), ("string", "zz"),
                                ("string", "3"), ("string", "1e-3"),  # text that would parse as a number
                                ("list", []), ("list", ["zz"]), ("list", [1]), ("object", {}), ("object", {"k": 1})]


def kind_of(v: Any) -> str:
    if v is None:
        return "null"
    if isinstance(v, bool):
        return "bool"
    if isinstance(v, (int, float)):
        return "number"
    if isinstance(v, str):
        return "string"
    if isinstance(v, list):
        return "list"
    return "object"


def paths(d: Any, pre: Tuple = ()) -> Iterable[Tuple]:
    if isinstance(d, dict):
        for k, v in d.items():
            yield pre + (k,)
            yield from paths(v, pre + (k,))
    elif isinstance(d, list):
        for i, v in enumerate(d):
            yield pre + (i,)
            yield from paths(v, pre + (i,))


def getp(d: Any, p: Tuple) -> Any:
    for k in p:
        d = d[k]
    return d


def setp(d: Any, p: Tuple, val: Any) -> None:
    for k in p[:-1]:
        d = d[k]
    d[p[-1]] = val


def delp(d: Any, p: Tuple) -> None:
    for k in p[:-1]:
        d = d[k]
    del d[p[-1]]


def is_num(v: Any) -> bool:
    return isinstance(v, (int, float)) and not isinstance(v, bool)


def valid_data(d: Any, machine: bool) -> bool:
    """Reference schema of a contract dictionary (from the documented representations)."""
    if not isinstance(d, dict):
        return False
    for kw in ("input_vars", "output_vars", "assumptions", "guarantees"):
        if kw not in d or not isinstance(d[kw], list):
            return False
    if not all(isinstance(x, str) for x in d["input_vars"] + d["output_vars"]):
        return False
    for kw in ("assumptions", "guarantees"):
        for cl in d[kw]:
            if machine:
                if not isinstance(cl, dict) or "constant" not in cl or "coefficients" not in cl:
                    return False
                if not is_num(cl["constant"]) or not isinstance(cl["coefficients"], dict):
                    return False
                if not all(isinstance(k, str) and is_num(v) for k, v in cl["coefficients"].items()):
                    return False
            elif not isinstance(cl, str):
                return False
    return True


def valid_entry(e: Any) -> bool:
    if not isinstance(e, dict) or "type" not in e or "name" not in e or "data" not in e:
        return False
    if not isinstance(e["name"], str) or not isinstance(e["type"], str):
        return False
    if e["type"] == "PolyhedralIoContract_machine":
        return valid_data(e["data"], True)
    if e["type"] == "PolyhedralIoContract":
        return valid_data(e["data"], False)
    return False


def fault_cases() -> List[Dict[str, Any]]:
    out = []
    for rep, base in (("machine", MACH), ("human", HUM)):
        entry = {"name": "c", "type": "PolyhedralIoContract_machine" if rep == "machine" else "PolyhedralIoContract",
                 "data": base}
        for p in paths(entry):
            e = _copy.deepcopy(entry)
            delp(e, p)
            out.append({"rep": rep, "fault": "delete", "path": list(p), "entry": e})
            cur = kind_of(getp(entry, p))
            for kname, val in KINDS:
                if kname == cur:
                    continue
                e = _copy.deepcopy(entry)
                setp(e, p, _copy.deepcopy(val))
                out.append({"rep": rep, "fault": "set:" + kname + ":" + json.dumps(val), "path": list(p), "entry": e})
    return out


def judge_fault(ctx: Ctx, case: Dict[str, Any], target: str, fn: Callable[[], Any], still_valid: bool) -> None:
    try:
        fn()
        outcome = "accepted"
        exc = None
    except Exception as e:  # noqa: BLE001
        exc = e
        outcome = type(e).__name__
    ctx.count("fault:%s:%s:%s" % (target, case["rep"], outcome if outcome in (
        "accepted", "ContractFormatError", "ValueError", "IncompatibleArgsError") else "ESCAPE"))
    if exc is None:
        if not still_valid:
            ctx.violation("fault-accepted:%s:%s" % (target, fault_class(case)),
                          "%s accepted a %s entry after fault %s at %s" % (target, case["rep"], case["fault"],
                                                                           case["path"]), case)
        return
    ok = isinstance(exc, (ValueError, P.ContractFormatError, P.PolyhedralSyntaxException,
                          P.PolyhedralSyntaxConvexException))
    if not ok:
        ctx.violation("exc:%s@%s" % (outcome, P.exc_origin(exc)),
                      "%s raised %s for a %s entry with fault %s at %s" % (target, outcome, case["rep"], case["fault"],
                                                                          case["path"]), case)


def fault_class(case: Dict[str, Any]) -> str:
    p = case["path"]
    leaf = p[-1] if p else "?"
    where = "name" if p[:1] == ["name"] else "type" if p[:1] == ["type"] else \
        "constant" if leaf == "constant" else "coefficient-value" if len(p) >= 2 and p[-2] == "coefficients" else \
        "coefficients" if leaf == "coefficients" else "clause" if isinstance(leaf, int) else str(leaf)
    return "%s:%s" % (where, case["fault"].split(":")[1] if case["fault"].startswith("set:") else "delete")


def run_fault(ctx: Ctx, case: Dict[str, Any]) -> None:
    e = case["entry"]
    machine = case["rep"] == "machine"
    ev = valid_entry(e)
    data = e.get("data") if isinstance(e, dict) else None
    dv = valid_data(data, machine)
    # 1. validate_contract_dict on the data part (only for faults inside the data part)
    if case["path"][:1] == ["data"] and len(case["path"]) > 1:
        judge_fault(ctx, case, "validate_contract_dict",
                    lambda: P.ser_mod.validate_contract_dict(_copy.deepcopy(data), "c", machine), dv)
        if machine:
            judge_fault(ctx, case, "from_dict",
                        lambda: P.PolyhedralIoContract.from_dict(_copy.deepcopy(data)), dv)
    # 2. the file reader on the whole entry
    d = tempfile.mkdtemp(prefix="pvm_c14_")
    try:
        fn = os.path.join(d, "f.json")
        with open(fn, "w") as f:
            json.dump([e], f)
        judge_fault(ctx, case, "read_contracts_from_file", lambda: P.fileio_mod.read_contracts_from_file(fn), ev)
        # the same entry in a file with a valid neighbour of the same representation, before and after it: every
        # entry of a file has to be checked, not only the first or the last one
        good = {"name": "ok", "type": "PolyhedralIoContract_machine" if machine else "PolyhedralIoContract",
                "data": _copy.deepcopy(MACH if machine else HUM)}
        for pos, content in (("first", [e, good]), ("last", [good, e]), ("middle", [good, e, good])):
            fn2 = os.path.join(d, "f_%s.json" % pos)
            with open(fn2, "w") as f:
                json.dump(content, f)
            judge_fault(ctx, dict(case, file_position=pos), "read_contracts_from_file",
                        lambda fn2=fn2: P.fileio_mod.read_contracts_from_file(fn2), ev)
    finally:
        shutil.rmtree(d, ignore_errors=True)
    ctx.count("fault_cases")
    sample = None
    if len(ctx.samples) < 2:
        sample = {"fault": case["fault"], "path": case["path"], "rep": case["rep"]}
    ctx.case_done(case, True, sample)


def file_level_faults() -> List[Dict[str, Any]]:
    """Top-level shapes of a file that are not a list of entries."""
    good = {"name": "c", "type": "PolyhedralIoContract", "data": HUM}
    return [{"rep": "file", "fault": "top:" + n, "path": [], "content": c} for n, c in (
        ("object", {"a": 1}), ("number", 3), ("string", "zz"), ("null", None), ("list-of-number", [1]),
        ("list-of-list", [[good]]), ("list-of-null", [None]), ("entry-without-type", [{"name": "c", "data": HUM}]),
        ("unknown-type", [{"name": "c", "type": "Other", "data": HUM}]), ("empty-list", []))]


def run_file_fault(ctx: Ctx, case: Dict[str, Any]) -> None:
    d = tempfile.mkdtemp(prefix="pvm_c14_")
    try:
        fn = os.path.join(d, "f.json")
        with open(fn, "w") as f:
            json.dump(case["content"], f)
        still_valid = case["fault"] == "top:empty-list"
        judge_fault(ctx, case, "read_contracts_from_file", lambda: P.fileio_mod.read_contracts_from_file(fn),
                    still_valid)
    finally:
        shutil.rmtree(d, ignore_errors=True)
    ctx.count("file_fault_cases")
    ctx.case_done(case, True)


# ----------------------------------------------------------------------------------------------


def run_case(ctx: Ctx, case: Dict[str, Any]) -> None:
    k = case.get("c14")
    if k == "blend":
        mods = {n: m for n, m, _ in blend_modules()}
        run_blend_case(ctx, case["module"], mods[case["module"]], case["case"])
    elif k == "adversarial":
        run_adversarial(ctx, case["case"])
    elif k == "adversarial-contract":
        run_adversarial_contracts(ctx, case["case"])
    elif k == "fault":
        run_fault(ctx, case["case"])
    else:
        run_file_fault(ctx, case["case"])


def run_repo_suite_under_monitors(ctx: Ctx) -> None:
    """Thorough tier, one shard: the repository's own tests with the monitors attached (pvm.pytest_plugin)."""
    import subprocess
    import sys
    from pvm import env

    out = tempfile.mkdtemp(prefix="pvm_suite_")
    try:
        res = os.path.join(out, "suite.json")
        envv = dict(os.environ, PYTHONPATH=env.VERIF + os.pathsep + env.SRC, PVM_SUITE_OUT=res, MPLBACKEND="Agg")
        p = subprocess.run([sys.executable, "-m", "pytest", "-q", "-p", "pvm.pytest_plugin", "-p", "no:cacheprovider",
                            "--timeout=900"], cwd=env.REPO, env=envv, capture_output=True, text=True, timeout=1800)
        ctx.count("repo-suite-under-monitors:pytest-exit-%d" % p.returncode)
        if os.path.exists(res):
            with open(res) as f:
                data = json.load(f)
            for prop, d in data.items():
                for k, v in d.get("counters", {}).items():
                    if k.startswith(("events:", "compose-", "quotient-", "merge-", "top-level")):
                        ctx.count("repo-suite-under-monitors:%s:%s" % (prop, k), int(v))
                for v in d.get("violations", []):
                    ctx.count("repo-suite-under-monitors:%s:VIOLATION:%s" % (prop, v["mechanism"]))
                    if prop == "C14":
                        ctx.violation(v["mechanism"], "repository test %s under monitors: %s" % (v.get("test"),
                                                                                                   v["what"]),
                                      {"repo_test": v.get("test")})
    except Exception as e:  # noqa: BLE001
        ctx.count("repo-suite-under-monitors:error:%s" % type(e).__name__)
    finally:
        shutil.rmtree(out, ignore_errors=True)


def run(ctx: Ctx) -> None:
    if not ctx.quick() and ctx.shard == 0:
        run_repo_suite_under_monitors(ctx)
    # E: every single-field deletion / kind change of a valid entry in both representations
    for idx, fc in enumerate(fault_cases()):
        if ctx.mine(idx):
            run_fault(ctx, fc)
    for idx, fc in enumerate(file_level_faults()):
        if ctx.mine(idx):
            run_file_fault(ctx, fc)
    # A: adversarial shapes
    for _ in range(ctx.n(6000, 100000)):
        if ctx.out_of_time():
            break
        run_adversarial(ctx, adversarial_lists(ctx.rng))
    for _ in range(ctx.n(1500, 25000)):
        if ctx.out_of_time():
            break
        run_adversarial_contracts(ctx, adversarial_contracts(ctx.rng))
    # blend of the other checks' workloads
    mods = blend_modules()
    tot = sum(w for _, _, w in mods)
    n = ctx.n(12000, 200000)
    for name, mod, w in mods:
        for _ in range(max(1, n * w // tot)):
            if ctx.out_of_time():
                break
            run_blend_case(ctx, name, mod, mod.blend_case(ctx.rng))


def replay(ctx: Ctx, case: Dict[str, Any]) -> None:
    # violations carry {"source":..., "case":...} or the fault case itself
    if "source" in case:
        src = case["source"]
        inner = case["case"]
        if src.startswith("adversarial-contract:"):
            run_adversarial_contracts(ctx, inner)
        elif src.startswith("adversarial:"):
            run_adversarial(ctx, inner)
        else:
            mods = {n: m for n, m, _ in blend_modules()}
            run_blend_case(ctx, src, mods[src], inner)
    elif "entry" in case:
        run_fault(ctx, case)
    elif "content" in case:
        run_file_fault(ctx, case)
