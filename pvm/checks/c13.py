"""C13 - operations are pure: operands unchanged, results independent of history."""
from __future__ import annotations

import json
import os
import struct
import sys
from typing import Any, Callable, Dict, List, Optional, Tuple

from pvm import exact as X
from pvm import gen, monitors as M
from pvm.core import Ctx
from pvm import probes as P

PROP = "C13"

# ----------------------------------------------------------------------------------------------
# operations on live objects (the same function runs in the session, at its end, and in the pristine child)


def build(spec: Dict[str, Any]) -> Any:
    k = spec["t"]
    if k == "C":
        return P.mk_contract(spec["v"], simplify=False)
    if k == "L":
        return P.mk_list(spec["v"])
    if k in ("S", "F"):
        return spec["v"]
    raise ValueError(k)


def snap_obj(o: Any) -> Any:
    return P.snap(o)


def apply_op(op: str, objs: List[Any], cfg: Dict[str, Any]) -> Any:  # noqa: C901
    a = objs[0] if objs else None
    b = objs[1] if len(objs) > 1 else None
    order = list(cfg["order"]) if cfg.get("order") is not None else None
    kw = {"tactics_order": order} if order is not None else {}
    if op == "compose":
        return a.compose_tactics(b, list(cfg.get("keep") or []), cfg.get("simplify", True), **kw)[0]
    if op == "compose_default":
        return a.compose(b)
    if op == "quotient":
        return a.quotient_tactics(b, [P.mk_var(v) for v in cfg.get("addl") or []], cfg.get("simplify", True), **kw)[0]
    if op == "merge":
        return a.merge(b)
    if op == "refines":
        return a.refines(b)
    if op == "rename":
        return a.rename_variables([tuple(m) for m in cfg["mappings"]])
    if op == "copy":
        return a.copy()
    if op == "csimplify":
        c = a.copy()
        c.simplify()
        return c
    if op == "lsimplify":
        return a.simplify(b) if b is not None else a.simplify()
    if op == "elim_refine":
        return a.elim_vars_by_refining(b, [P.mk_var(v) for v in cfg["elim"]], cfg.get("simplify", True), order)[0]
    if op == "elim_relax":
        return a.elim_vars_by_relaxing(b, [P.mk_var(v) for v in cfg["elim"]], cfg.get("simplify", True), order)[0]
    if op == "lrefines":
        return a.refines(b)
    if op == "lor":
        return a | b
    if op == "lsub":
        return a - b
    if op == "optimize":
        return a.optimize(cfg["expr"], maximize=cfg.get("maximize", True))
    if op == "bounds":
        return a.get_variable_bounds(cfg["var"])
    if op == "machine_roundtrip":
        return P.PolyhedralIoContract.from_dict(a.to_machine_dict(), simplify=cfg.get("simplify", True))
    if op == "string_roundtrip":
        d = a.to_dict()
        return P.PolyhedralIoContract.from_strings(d["assumptions"], d["guarantees"], d["input_vars"],
                                                   d["output_vars"], simplify=cfg.get("simplify", True))
    if op == "to_dict":
        return a.to_dict()
    if op == "parse":
        return P.ser_mod.polyhedral_termlist_from_string(a)
    if op == "from_strings":
        return P.PolyhedralIoContract.from_strings(list(a["a"]), list(a["g"]), list(a["in"]), list(a["out"]),
                                                   simplify=cfg.get("simplify", False))
    if op == "is_empty":
        return a.is_empty()
    if op == "contains":
        return a.contains_behavior({P.mk_var(v): x for v, x in cfg["behavior"].items()})
    if op == "env_impl":
        return (a.contains_environment(b), a.contains_implementation(b))
    raise ValueError("unknown op " + op)


def outcome_of(fn: Callable[[], Any]) -> Tuple[Any, Any]:
    """(neutral outcome, live result or None)."""
    try:
        r = fn()
    except Exception as e:  # noqa: BLE001
        return {"raise": type(e).__name__}, None
    return {"ret": snap_obj(r)}, r


# ----------------------------------------------------------------------------------------------
# pristine replay: a zygote forked before the session executes anything; it forks one child per step


def _send(fd: int, obj: Any) -> None:
    data = json.dumps(obj).encode()
    os.write(fd, struct.pack("<I", len(data)))
    off = 0
    while off < len(data):
        off += os.write(fd, data[off: off + 65536])


def _recv(fd: int) -> Any:
    hdr = b""
    while len(hdr) < 4:
        chunk = os.read(fd, 4 - len(hdr))
        if not chunk:
            return None
        hdr += chunk
    n = struct.unpack("<I", hdr)[0]
    buf = b""
    while len(buf) < n:
        chunk = os.read(fd, min(65536, n - len(buf)))
        if not chunk:
            return None
        buf += chunk
    return json.loads(buf.decode())


def replay_step(step: Dict[str, Any]) -> Any:
    objs = [build(s) for s in step["operands"]]
    out, _ = outcome_of(lambda: apply_op(step["op"], objs, step["cfg"]))
    return out


class Zygote:
    """A process that has imported pacti and executed nothing; each request is served by a fresh fork of it."""

    def __init__(self) -> None:
        self.pid = 0
        self.req_w = self.res_r = -1

    def start(self) -> None:
        req_r, req_w = os.pipe()
        res_r, res_w = os.pipe()
        pid = os.fork()
        if pid == 0:
            os.close(req_w)
            os.close(res_r)
            try:
                while True:
                    step = _recv(req_r)
                    if step is None:
                        break
                    r2, w2 = os.pipe()
                    cpid = os.fork()
                    if cpid == 0:
                        os.close(r2)
                        try:
                            _send(w2, replay_step(step))
                        except Exception as e:  # noqa: BLE001
                            _send(w2, {"replay-error": "%s: %s" % (type(e).__name__, e)})
                        os._exit(0)
                    os.close(w2)
                    res = _recv(r2)
                    os.close(r2)
                    os.waitpid(cpid, 0)
                    _send(res_w, res if res is not None else {"replay-error": "child died"})
            finally:
                os._exit(0)
        os.close(req_r)
        os.close(res_w)
        self.pid, self.req_w, self.res_r = pid, req_w, res_r

    def ask(self, step: Dict[str, Any]) -> Any:
        _send(self.req_w, step)
        return _recv(self.res_r)

    def stop(self) -> None:
        if self.pid:
            try:
                os.close(self.req_w)
                os.close(self.res_r)
                os.waitpid(self.pid, 0)
            except Exception:  # noqa: BLE001
                pass
            self.pid = 0


_zygote: Optional[Zygote] = None
_rec: Optional[P.Recorder] = None


def recorder() -> P.Recorder:
    global _rec
    if _rec is None:
        _rec = P.Recorder()
        P.attach_public(_rec)
        P.attach_l1(_rec)
    return _rec


def module_state() -> Any:
    tac = getattr(P.PolyhedralTermList, "TACTICS", {})
    return {"poly.TACTICS_ORDER": list(getattr(P.poly_mod, "TACTICS_ORDER", [])),
            "pic.TACTICS_ORDER": list(getattr(P.pic_mod, "TACTICS_ORDER", [])),
            "TACTICS": [[k, id(v)] for k, v in tac.items()] if isinstance(tac, dict) else None}


def mutable_ids(o: Any, acc: Optional[Dict[int, str]] = None, depth: int = 0) -> Dict[int, str]:
    """ids of the mutable containers reachable from o (Var objects are value-like and excluded)."""
    if acc is None:
        acc = {}
    if o is None or isinstance(o, (bool, int, float, str)) or depth > 6:
        return acc
    if isinstance(o, P.Var):
        return acc
    if isinstance(o, (list, dict, set)):
        if id(o) in acc:
            return acc
        acc[id(o)] = type(o).__name__
        it = o.values() if isinstance(o, dict) else o
        for x in it:
            mutable_ids(x, acc, depth + 1)
        return acc
    if isinstance(o, tuple):
        for x in o:
            mutable_ids(x, acc, depth + 1)
        return acc
    d = getattr(o, "__dict__", None)
    if d is not None and type(o).__module__.startswith("pacti"):
        if id(o) in acc:
            return acc
        acc[id(o)] = type(o).__name__
        for x in d.values():
            mutable_ids(x, acc, depth + 1)
    return acc


def perturb_result(r: Any) -> Optional[Callable[[], None]]:
    """Mutate the result in place (coefficients, list appends); returns the undo action."""
    undo: List[Callable[[], None]] = []

    def mut_list(tl: Any) -> None:
        terms = getattr(tl, "terms", None)
        if isinstance(terms, list):
            extra = P.mk_term({"c": {"__alias_probe__": 1.0}, "k": 123.0})
            terms.append(extra)
            undo.append(lambda: terms.remove(extra))
            for t in terms[:-1][:2]:
                vs = getattr(t, "variables", None)
                if isinstance(vs, dict) and vs:
                    k0 = next(iter(vs))
                    old = vs[k0]
                    vs[k0] = old * 3.0 + 1.0
                    undo.append(lambda vs=vs, k0=k0, old=old: vs.__setitem__(k0, old))
                if hasattr(t, "constant"):
                    oldc = t.constant
                    t.constant = oldc + 7.0
                    undo.append(lambda t=t, oldc=oldc: setattr(t, "constant", oldc))

    if isinstance(r, P.IoContract):
        mut_list(r.a)
        mut_list(r.g)
        for lst in (r.inputvars, r.outputvars):
            probe = P.mk_var("__alias_probe_var__")
            lst.append(probe)
            undo.append(lambda lst=lst, probe=probe: lst.remove(probe))
    elif isinstance(r, P.PolyhedralTermList):
        mut_list(r)
    elif isinstance(r, list) and r and isinstance(r[0], P.PolyhedralTerm):
        for t in r[:2]:
            oldc = t.constant
            t.constant = oldc + 7.0
            undo.append(lambda t=t, oldc=oldc: setattr(t, "constant", oldc))
    else:
        return None

    def undo_all() -> None:
        for u in reversed(undo):
            u()

    return undo_all


# ----------------------------------------------------------------------------------------------
# the session driver


class Session:
    def __init__(self, ctx: Ctx, rng) -> None:
        self.ctx = ctx
        self.rng = rng
        self.pool: List[Tuple[str, Any]] = []   # (type tag, live object)
        self.steps: List[Dict[str, Any]] = []
        self.twin: Dict[int, int] = {}           # pool index -> index of its look-alike
        self.queue: List[Tuple[str, List[int], Dict[str, Any], Any]] = []   # follow-up steps on the look-alike
        self.force_replay = False

    def add(self, tag: str, obj: Any) -> int:
        if len(self.pool) < 40:
            self.pool.append((tag, obj))
            return len(self.pool) - 1
        i = self.rng.randrange(len(self.pool))
        self.pool[i] = (tag, obj)
        j = self.twin.pop(i, None)
        if j is not None:
            self.twin.pop(j, None)
        return i

    def add_twins(self, tag: str, o1: Any, o2: Any) -> None:
        i = self.add(tag, o1)
        j = self.add(tag, o2)
        if i != j and self.pool[i][1] is o1:
            self.twin[i], self.twin[j] = j, i

    def lookalike_contract(self, c: Any) -> Optional[Any]:
        """The same contract with one -1 turned into -2 (or back): a different contract that is easily mistaken for the
        first one by anything that identifies objects by hash() (hash(-1.0) == hash(-2.0)) or by printed text."""
        n = X.snap_contract(c)
        spots = [(key, i, v) for key in ("a", "g") for i, t in enumerate(n[key]) for v, x in list(t["c"].items()) + [
            (None, t["k"])] if x in (-1.0, -2.0)]
        if not spots:
            return None
        key, i, v = self.rng.choice(spots)
        t = n[key][i]
        if v is None:
            t["k"] = -3.0 - t["k"]
        else:
            t["c"][v] = -3.0 - t["c"][v]
        try:
            return P.mk_contract(n, simplify=False)
        except ValueError:
            return None

    def spelling_twins(self) -> None:
        """Two from_strings requests whose texts differ only in white space and mean different things."""
        rng = self.rng
        plain, tricky = rng.choice([("y", "e1"), ("x", "E2"), ("b", "e1b"), ("o1", "e2")])
        m, k = rng.choice([2, 3, 5]), rng.choice([5, 40, 700])
        base = {"in": ["i1"], "out": [plain, tricky], "a": ["i1 <= 3"]}
        spaced = dict(base, g=["%s + %d %s <= %d" % (plain, m, tricky, k), "%s - i1 <= 1" % tricky])
        glued = dict(base, g=["%s + %d%s <= %d" % (plain, m, tricky, k), "%s - i1 <= 1" % tricky])
        pair = [spaced, glued]
        rng.shuffle(pair)
        self.add_twins("F", pair[0], pair[1])

    def spec_of(self, tag: str, obj: Any) -> Dict[str, Any]:
        if tag == "C":
            return {"t": "C", "v": X.snap_contract(obj)}
        if tag == "L":
            return {"t": "L", "v": X.snap_list(obj)}
        if tag == "F":
            return {"t": "F", "v": obj}
        return {"t": "S", "v": obj}

    def fresh_contracts(self) -> None:
        r = self.rng.random()
        try:
            if self.rng.random() < 0.3:
                n = gen.rcontract(self.rng, ["i1"], ["o1", "o2"][: self.rng.randint(1, 2)], "int", bounded=True)
                c = P.mk_contract(n, True)
                t = self.lookalike_contract(c)
                if t is not None:
                    self.add_twins("C", c, t)
                    return
            if r < 0.4:
                cc = gen.compose_case(self.rng)
                for n in (cc["c1"], cc["c2"]):
                    self.add("C", P.mk_contract(n, True))
            elif r < 0.7:
                q = gen.quotient_case(self.rng)
                for n in (q["top"], q["divisor"]):
                    self.add("C", P.mk_contract(n, True))
            else:
                m = gen.merge_case(self.rng)
                for n in (m["c1"], m["c2"]):
                    self.add("C", P.mk_contract(n, True))
        except ValueError:
            pass

    def pick(self, tag: str, k: int, recent: bool) -> Optional[List[int]]:
        idx = [i for i, (t, _) in enumerate(self.pool) if t == tag]
        if len(idx) < k:
            return None
        if recent and len(idx) >= 2 and k == 2:
            # the two most recent compatible operands (they come from the same generated case)
            return idx[-2:] if self.rng.random() < 0.7 else list(reversed(idx[-2:]))
        return self.rng.sample(idx, k)

    def plan(self) -> Optional[Tuple[str, List[int], Dict[str, Any]]]:  # noqa: C901
        rng = self.rng
        self.force_replay = False
        while self.queue:
            op, ids, cfg, objs = self.queue.pop(0)
            if all(i < len(self.pool) and self.pool[i][1] is o for i, o in zip(ids, objs)):
                self.force_replay = True
                self.ctx.count("lookalike-follow-ups")
                return op, ids, cfg
        op = rng.choice(["compose", "compose", "quotient", "merge", "refines", "rename", "copy", "csimplify",
                         "from_strings", "optimize", "bounds",
                         "lsimplify", "elim_refine", "elim_relax", "lrefines", "lor", "lsub", "optimize", "bounds",
                         "machine_roundtrip", "string_roundtrip", "to_dict", "parse", "is_empty", "contains",
                         "compose_default", "env_impl"])
        cfg: Dict[str, Any] = {}
        if op in ("compose", "compose_default", "quotient", "merge", "refines"):
            if rng.random() < 0.6:
                self.fresh_contracts()
            ids = self.pick("C", 2, recent=rng.random() < 0.75)
            if ids is None:
                return None
            c1, c2 = self.pool[ids[0]][1], self.pool[ids[1]][1]
            outs = [X.vname(v) for v in list(c1.outputvars) + list(c2.outputvars)]
            cfg = {"simplify": rng.random() < 0.6, "order": gen.rorder(rng)}
            if op == "compose" and outs and rng.random() < 0.3:
                cfg["keep"] = [rng.choice(outs)]
            if op == "quotient" and rng.random() < 0.3:
                cand = [X.vname(v) for v in list(c1.inputvars) + list(c2.outputvars)]
                if cand:
                    cfg["addl"] = [rng.choice(cand)]
            return op, ids, cfg
        if op in ("rename", "copy", "csimplify", "optimize", "bounds", "machine_roundtrip", "string_roundtrip",
                  "to_dict"):
            ids = self.pick("C", 1, False)
            if ids is None:
                self.fresh_contracts()
                return None
            c = self.pool[ids[0]][1]
            vs = [X.vname(v) for v in list(c.inputvars) + list(c.outputvars)]
            if not vs:
                return None
            if op == "rename":
                cfg = {"mappings": [[rng.choice(vs), rng.choice(vs + ["fresh1", "fresh2"])]
                                    for _ in range(rng.randint(1, 2))]}
            elif op == "optimize":
                sel = rng.sample(vs, min(len(vs), rng.randint(1, 2)))
                cfg = {"expr": " + ".join("%d %s" % (rng.choice([1, 2, 3]), v) for v in sel),
                       "maximize": rng.random() < 0.5}
            elif op == "bounds":
                cfg = {"var": rng.choice(vs)}
            elif op in ("machine_roundtrip", "string_roundtrip"):
                cfg = {"simplify": rng.random() < 0.5}
            if op in ("optimize", "bounds", "copy", "to_dict", "machine_roundtrip"):
                tw = [i for i in self.twin if self.pool[i][0] == "C"]
                if tw and rng.random() < 0.6:
                    # ask the same question of a contract and then of its look-alike
                    i = rng.choice(tw)
                    j = self.twin[i]
                    c = self.pool[i][1]
                    vs = [X.vname(v) for v in list(c.inputvars) + list(c.outputvars)]
                    if op == "optimize":
                        cfg = {"expr": "%d %s" % (rng.choice([1, 2]), rng.choice(vs)), "maximize": rng.random() < 0.5}
                    elif op == "bounds":
                        cfg = {"var": rng.choice(vs)}
                    self.queue.append((op, [j], dict(cfg), [self.pool[j][1]]))
                    return op, [i], cfg
            return op, ids, cfg
        if op == "from_strings":
            tw = [i for i in self.twin if self.pool[i][0] == "F"]
            if not tw:
                self.spelling_twins()
                return None
            i = rng.choice(tw)
            j = self.twin[i]
            cfg = {"simplify": rng.random() < 0.5}
            self.queue.append((op, [j], dict(cfg), [self.pool[j][1]]))
            return op, [i], cfg
        if op in ("lsimplify", "elim_refine", "elim_relax", "lrefines", "lor", "lsub", "env_impl"):
            if op == "env_impl":
                ic = self.pick("C", 1, False)
                il = self.pick("L", 1, False)
                if ic is None or il is None:
                    self.seed_lists()
                    return None
                return op, ic + il, {}
            ids = self.pick("L", 2, False)
            if ids is None:
                self.seed_lists()
                return None
            l1, l2 = self.pool[ids[0]][1], self.pool[ids[1]][1]
            vs = [X.vname(v) for v in l1.vars] or ["a"]
            cfg = {"simplify": rng.random() < 0.5, "order": gen.rorder(rng),
                   "elim": rng.sample(vs, rng.randint(1, min(2, len(vs))))}
            return op, ids, cfg
        if op in ("is_empty", "contains"):
            ids = self.pick("L", 1, False)
            if ids is None:
                self.seed_lists()
                return None
            tl = self.pool[ids[0]][1]
            cfg = {"behavior": {X.vname(v): float(rng.randint(-3, 3)) for v in tl.vars}}
            return op, ids, cfg
        if op == "parse":
            ids = self.pick("S", 1, False)
            if ids is None:
                from pvm.checks import c09

                for _ in range(3):
                    self.add("S", c09.gen_tree_case(rng)["string"])
                return None
            return op, ids, {}
        return None

    def seed_lists(self) -> None:
        for _ in range(2):
            c = gen.elim_case(self.rng)
            self.add("L", P.mk_list(c["terms"]))
            self.add("L", P.mk_list(c["ctx"]))
        ids = self.pick("C", 1, False)
        if ids is not None:
            c = self.pool[ids[0]][1]
            self.add("L", c.a.copy())
            self.add("L", c.g.copy())

    # ------------------------------------------------------------------
    def step(self, replay_prob: float) -> bool:  # noqa: C901
        ctx = self.ctx
        pl = self.plan()
        if pl is None:
            return False
        op, ids, cfg = pl
        rec = recorder()
        rec.reset()
        operands = [self.pool[i] for i in ids]
        specs = [self.spec_of(t, o) for t, o in operands]
        step = {"op": op, "operands": specs, "cfg": cfg}
        pool_before = [X.canon(snap_obj(o)) for _, o in self.pool]
        cfg_before = X.canon(cfg)
        mod_before = X.canon(module_state())
        objs = [o for _, o in operands]
        out, live = outcome_of(lambda: apply_op(op, objs, cfg))
        step["outcome"] = out
        ctx.count("step:%s:%s" % (op, "ret" if "ret" in out else out["raise"]))
        case = {"history": [{k: s[k] for k in ("op", "operands", "cfg")} for s in self.steps[-6:]] + [
            {k: step[k] for k in ("op", "operands", "cfg")}]}
        # (i) purity: every pool member, the configuration lists and the module state
        pool_after = [X.canon(snap_obj(o)) for _, o in self.pool]
        for i, (b, a) in enumerate(zip(pool_before, pool_after)):
            if a != b:
                ctx.violation("operand-modified:%s" % op, "%s (%s) modified pool member %d (%s)" % (
                    op, out, i, "an operand" if i in ids else "not even an operand"), case)
                break
        if X.canon(cfg) != cfg_before:
            ctx.violation("option-list-modified:%s" % op, "%s modified its option lists %s" % (op, cfg), case)
        if X.canon(module_state()) != mod_before:
            ctx.violation("module-state-modified:%s" % op, "%s changed module-level state to %s" % (op, module_state()),
                          case)
        for ev in rec.events():
            if ev.mutated and not ev.op.endswith("__init__") and ev.op != "IoContract.simplify":
                ctx.violation("argument-modified:%s" % ev.op, "%s modified its argument(s) %s (during %s)" % (
                    ev.op, ev.mutated, op), case)
                break
        ctx.count("purity-snapshots", len(pool_after))
        # (ii) aliasing
        if live is not None:
            rid = mutable_ids(live)
            if rid:
                shared = None
                for i, (_, o) in enumerate(self.pool):
                    oid = mutable_ids(o)
                    inter = set(rid) & set(oid)
                    if inter and o is not live:
                        shared = (i, rid[next(iter(inter))])
                        break
                if shared is not None:
                    ctx.violation("result-aliases-operand:%s" % op, "the result of %s shares a mutable %s with pool "
                                  "member %d" % (op, shared[1], shared[0]), case)
                undo = perturb_result(live)
                if undo is not None:
                    pool_mut = [X.canon(snap_obj(o)) for _, o in self.pool]
                    # while the result is modified: the same call on equal (rebuilt) arguments must still give the
                    # original answer - a result handed out from a cache would come back modified
                    again = replay_step(step) if self.rng.random() < 0.5 else None
                    undo()
                    if again is not None:
                        ctx.count("repeat-while-result-modified")
                        if X.canon(again) != X.canon(out):
                            ctx.violation("result-shared-with-later-calls:%s" % op, "after the caller modified the "
                                          "result of %s, an identical call returned %s instead of %s" % (
                                              op, json.dumps(again)[:300], json.dumps(out)[:300]), case)
                    if pool_mut != pool_after:
                        ctx.violation("result-mutation-visible-in-operand:%s" % op, "mutating the result of %s "
                                      "changed a pool member" % op, case)
                    ctx.count("aliasing-checks")
        # (iii) history independence: the same step in a pristine interpreter state
        if _zygote is not None and (self.force_replay or self.rng.random() < replay_prob):
            res = _zygote.ask({k: step[k] for k in ("op", "operands", "cfg")})
            if res is None or "replay-error" in (res or {}):
                ctx.count("pristine-replay-error")
                if ctx.counters["pristine-replay-error"] > 5:
                    ctx.monitor_error("pristine replay failed: %r" % (res,))
            else:
                ctx.count("pristine-replays")
                if X.canon(res) != X.canon(out):
                    ctx.violation("history-dependent:%s" % op, "%s gave %s in this session but %s in a pristine "
                                  "interpreter" % (op, json.dumps(out)[:300], json.dumps(res)[:300]), case)
        self.steps.append(step)
        # feed results back
        if live is not None:
            if isinstance(live, P.IoContract):
                self.add("C", live)
            elif isinstance(live, P.PolyhedralTermList):
                self.add("L", live)
            elif isinstance(live, dict) and op == "to_dict":
                for s in (live.get("assumptions", []) + live.get("guarantees", []))[:2]:
                    self.add("S", s)
        ctx.case_done({"step": {k: step[k] for k in ("op", "operands", "cfg")}}, True,
                      {"op": op, "cfg": cfg, "outcome": json.dumps(out)[:200]} if len(ctx.samples) < 3 and "ret" in out
                      and op in ("compose", "quotient") else None)
        return True

    def finish(self, nsample: int) -> None:
        """Repeat a sample of the session's steps at its end: equal arguments must give equal results."""
        ctx = self.ctx
        if not self.steps:
            return
        for st in self.rng.sample(self.steps, min(nsample, len(self.steps))):
            again = replay_step(st)
            ctx.count("end-of-session-repeats")
            if X.canon(again) != X.canon(st["outcome"]):
                ctx.violation("history-dependent:%s" % st["op"], "%s gave %s earlier in the session and %s when "
                              "repeated at its end" % (st["op"], json.dumps(st["outcome"])[:300],
                                                       json.dumps(again)[:300]),
                              {"history": [{k: s[k] for k in ("op", "operands", "cfg")} for s in self.steps[-8:]],
                               "repeat": {k: st[k] for k in ("op", "operands", "cfg")}})


def run_history(ctx: Ctx, rng, length: int, replay_prob: float) -> None:
    s = Session(ctx, rng)
    s.fresh_contracts()
    s.seed_lists()
    n = 0
    tries = 0
    while n < length and tries < length * 4:
        tries += 1
        if s.step(replay_prob):
            n += 1
    s.finish(6)
    ctx.count("histories")


def run(ctx: Ctx) -> None:
    global _zygote
    recorder()
    _zygote = Zygote()
    try:
        _zygote.start()
    except Exception as e:  # noqa: BLE001
        _zygote = None
        ctx.monitor_error("cannot fork the pristine zygote: %r" % e)
    try:
        nh = ctx.n(400, 5000)
        for _ in range(nh):
            if ctx.out_of_time():
                break
            run_history(ctx, ctx.rng, 30, 0.3 if ctx.quick() else 0.6)
    finally:
        if _zygote is not None:
            _zygote.stop()


def run_case(ctx: Ctx, case: Dict[str, Any]) -> None:
    """Replay of a recorded (partial) history: re-executes the steps in order with the purity monitors on."""
    import random

    rec = recorder()
    hist = case.get("history") or ([case["step"]] if "step" in case else [])
    for st in hist:
        rec.reset()
        objs = [build(s) for s in st["operands"]]
        before = [X.canon(snap_obj(o)) for o in objs]
        cfg_before = X.canon(st["cfg"])
        out, live = outcome_of(lambda: apply_op(st["op"], objs, st["cfg"]))
        if [X.canon(snap_obj(o)) for o in objs] != before:
            ctx.violation("operand-modified:%s" % st["op"], "%s modified an operand" % st["op"], case)
        if X.canon(st["cfg"]) != cfg_before:
            ctx.violation("option-list-modified:%s" % st["op"], "%s modified its options" % st["op"], case)
        for ev in rec.events():
            if ev.mutated and not ev.op.endswith("__init__") and ev.op != "IoContract.simplify":
                ctx.violation("argument-modified:%s" % ev.op, "%s modified %s" % (ev.op, ev.mutated), case)
                break
        if live is not None:
            rid = mutable_ids(live)
            for o in objs:
                if set(rid) & set(mutable_ids(o)):
                    ctx.violation("result-aliases-operand:%s" % st["op"], "result of %s aliases an operand" % st["op"],
                                  case)
        again = replay_step(st)
        if X.canon(again) != X.canon(out):
            ctx.violation("history-dependent:%s" % st["op"], "%s is not repeatable" % st["op"], case)
    _ = random
    ctx.case_done(case, True)


def blend_case(rng) -> Dict[str, Any]:
    # a one-step history for the C14 blend
    cc = gen.compose_case(rng)
    return {"history": [{"op": "compose", "operands": [{"t": "C", "v": cc["c1"]}, {"t": "C", "v": cc["c2"]}],
                         "cfg": {"keep": cc["keep"], "simplify": cc["simplify"], "order": cc["order"]}}]}


def replay(ctx: Ctx, case: Dict[str, Any]) -> None:
    run_case(ctx, case)
