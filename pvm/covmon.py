"""Line reach of the pacti sources under a workload, via sys.monitoring (Python 3.12).

A LINE callback that returns DISABLE after the first hit of a location costs (almost) nothing in steady state.
The result is evidence of *what the monitors' workloads actually executed*: per source file the executed lines,
and the functions of the file that were never entered.
"""
from __future__ import annotations

import os
import sys
from typing import Dict, List, Set, Tuple

_hits: Dict[str, Set[int]] = {}
_prefix = ""
_TOOL = 3


def start(src_root: str) -> bool:
    global _prefix
    mon = getattr(sys, "monitoring", None)
    if mon is None:
        return False
    _prefix = os.path.join(src_root, "pacti") + os.sep
    try:
        mon.use_tool_id(_TOOL, "pvm-cov")
    except ValueError:
        return False

    def on_line(code, line):  # noqa: ANN001
        fn = code.co_filename
        if fn.startswith(_prefix):
            _hits.setdefault(fn[len(_prefix):], set()).add(line)
        return mon.DISABLE

    mon.register_callback(_TOOL, mon.events.LINE, on_line)
    mon.set_events(_TOOL, mon.events.LINE)
    return True


def result() -> Dict[str, List[int]]:
    return {f: sorted(ls) for f, ls in _hits.items()}


def executable_lines(path: str) -> Tuple[Set[int], Dict[str, Tuple[int, Set[int]]]]:
    """(all executable lines, {qualified function name: (first line, its lines)}) of a source file."""
    with open(path) as f:
        src = f.read()
    top = compile(src, path, "exec")
    all_lines: Set[int] = set()
    funcs: Dict[str, Tuple[int, Set[int]]] = {}

    def walk(code, qual):  # noqa: ANN001
        lines = {ln for (_, _, ln) in code.co_lines() if ln is not None}
        all_lines.update(lines)
        if qual:
            body = {ln for ln in lines if ln != code.co_firstlineno}
            funcs[qual] = (code.co_firstlineno, body)
        for c in code.co_consts:
            if hasattr(c, "co_code"):
                name = c.co_name
                if name.startswith("<") and name not in ("<lambda>",):
                    walk(c, qual)
                else:
                    walk(c, (qual + "." if qual else "") + name)

    walk(top, "")
    return all_lines, funcs


def summarise(src_root: str, hits: Dict[str, List[int]]) -> Dict[str, Dict[str, object]]:
    out: Dict[str, Dict[str, object]] = {}
    base = os.path.join(src_root, "pacti")
    for rel, hl in sorted(hits.items()):
        path = os.path.join(base, rel)
        if not os.path.exists(path):
            continue
        try:
            lines, funcs = executable_lines(path)
        except Exception:  # noqa: BLE001
            continue
        hs = set(hl)
        never = sorted(q for q, (_, body) in funcs.items() if body and not (body & hs))
        out[rel] = {"executed_lines": len(hs & lines), "executable_lines": len(lines),
                    "functions_never_entered": never[:40]}
    return out
