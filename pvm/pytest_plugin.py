"""pytest plugin: run the repository's own test-suite with the monitors attached.

    cd /repo && PYTHONPATH=/verif:/repo/src /venv/bin/python -m pytest -q -p pvm.pytest_plugin -p no:cacheprovider

Every monitored call made by the tests is judged by the same oracles as in the checks (elimination per list and per
term, composition / quotient obligations, merge, simplify, refines, purity, exception types of top-level calls).  A
monitor that fires here is either too strict or a defect the tests do not assert.  Summary is printed at the end and
written to $PVM_SUITE_OUT (default /tmp/pvm_suite_monitored.json).
"""
from __future__ import annotations

import json
import os

_state = {}


def pytest_configure(config):
    from pvm import env

    env.bind()
    from pvm import probes as P
    from pvm.core import Ctx

    rec = P.Recorder()
    P.attach_l0(rec)
    P.attach_l1(rec)
    P.attach_public(rec)
    rec.max_events = 200000
    _state["rec"] = rec
    _state["ctx"] = {p: Ctx(p, "suite", 0, 0, 1) for p in ("C01", "C02", "C03", "C04", "C07", "C08", "C13", "C14",
                                                            "C06")}


def pytest_runtest_setup(item):
    _state["rec"].reset()
    _state["test"] = item.nodeid


def pytest_runtest_teardown(item, nextitem):
    from pvm import exact as X
    from pvm import monitors as M
    from pvm import probes as P
    from pvm.checks import c03, c04, c07, c08

    rec = _state["rec"]
    rec.enabled = False
    try:
        case = {"test": _state.get("test")}
        ctxs = _state["ctx"]
        c04.judge_forest(ctxs["C04"], rec, case)
        for ev in list(rec.events()):
            try:
                if ev.op == "PTL.simplify":
                    c07.judge_simplify(ctxs["C07"], ev, case, ev.parent is not None)
                elif ev.op == "PTL.refines":
                    c03.judge_list_refines(ctxs["C03"], ev, case, True)
                elif ev.op == "IoContract.compose_tactics" and ev.out == "ret":
                    s1, s2 = M._C(ev.args.get("self")), M._C(ev.args.get("other"))
                    sc = M._C(ev.res[0]) if isinstance(ev.res, list) else None
                    if s1 and s2 and sc:
                        ctxs["C01"].count("compose-judged")
                        r, w = M.compose_obligation(s1, s2, sc)
                        if r == "sat":
                            ctxs["C01"].violation(M.attribute_tactics(ev) or "algebra", "compose in %s unsound" % case,
                                                  case, w)
                        wf = M.wellformed(sc)
                        if wf:
                            ctxs["C06"].violation("ill-formed", wf, case)
                elif ev.op == "IoContract.quotient_tactics" and ev.out == "ret":
                    st, sd = M._C(ev.args.get("self")), M._C(ev.args.get("other"))
                    sq = M._C(ev.res[0]) if isinstance(ev.res, list) else None
                    if st and sd and sq:
                        ctxs["C02"].count("quotient-judged")
                        r, w = M.quotient_obligation(st, sd, sq)
                        if r == "sat":
                            ctxs["C02"].violation(M.attribute_tactics(ev) or "algebra", "quotient in %s unsound" % case,
                                                  case, w)
                elif ev.op == "IoContract.merge" and ev.out == "ret":
                    s1, s2, sm = M._C(ev.args.get("self")), M._C(ev.args.get("other")), M._C(ev.res)
                    if s1 and s2 and sm:
                        ctxs["C08"].count("merge-judged")
                        c08.judge_merge(ctxs["C08"], s1, s2, sm, case, "suite")
                if ev.mutated and not ev.op.endswith("__init__") and ev.op not in ("IoContract.simplify", "linprog"):
                    ctxs["C13"].violation("argument-modified:%s" % ev.op, "%s modified %s in %s" % (
                        ev.op, ev.mutated, case), case)
            except Exception as e:  # noqa: BLE001
                ctxs["C14"].count("monitor-error:%s" % type(e).__name__)
        for ev in rec.roots:
            ctxs["C14"].count("top-level-calls")
            if ev.out == "raise":
                allow = P.op_allows(ev.op)
                if not M.is_documented(ev.exc, strings=allow["strings"], dicts=allow["dicts"]):
                    ctxs["C14"].violation("exc:%s@%s" % (ev.exc, ev.exc_where), "%s escaped from %s in %s" % (
                        ev.exc, ev.op, case), case)
        _ = X
    finally:
        rec.reset()
        rec.enabled = True


def pytest_sessionfinish(session, exitstatus):
    out = {}
    nv = 0
    for p, c in _state.get("ctx", {}).items():
        out[p] = {"counters": dict(c.counters), "violations": [
            {"mechanism": v["mechanism"], "what": v["what"][:400], "test": (v["case"] or {}).get("test")}
            for v in c.violations]}
        nv += len(c.violations)
    path = os.environ.get("PVM_SUITE_OUT", "/tmp/pvm_suite_monitored.json")
    with open(path, "w") as f:
        json.dump(out, f, indent=1)
    print("\n[pvm] repository suite under monitors: %d violation(s); summary in %s" % (nv, path))
    for p, d in out.items():
        ev = {k: v for k, v in d["counters"].items() if k.startswith(("events:", "compose-", "quotient-", "merge-",
                                                                       "top-level"))}
        print("[pvm] %s %s%s" % (p, ev, "".join("\n   VIOLATION %s: %s" % (v["mechanism"], v["what"][:200])
                                                for v in d["violations"][:5])))
