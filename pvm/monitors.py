"""Judges: deterministic oracles over recorded events (shared by several checks).

Each judge takes an Event (pvm.probes) and returns a list of findings
``(mechanism, what, witness)``; ``None`` entries mean the oracle was inconclusive for that event.
"""
from __future__ import annotations

from typing import Any, Dict, Iterable, List, Optional, Tuple

from pvm import exact as X
from pvm.probes import Event

Finding = Tuple[str, str, Any]


def names_in(snapv: Any) -> List[str]:
    return [d["V"] if isinstance(d, dict) and "V" in d else str(d) for d in (snapv or [])]


def _L(s: Any) -> Optional[List[Dict[str, Any]]]:
    if isinstance(s, dict) and "L" in s:
        return s["L"]
    return None


def _T(s: Any) -> Optional[Dict[str, Any]]:
    if isinstance(s, dict) and "T" in s:
        return s["T"]
    return None


def _C(s: Any) -> Optional[Dict[str, Any]]:
    if isinstance(s, dict) and "C" in s:
        return s["C"]
    return None


def is_documented(exc: Optional[str], strings: bool = False, dicts: bool = False) -> bool:
    ok = {"ValueError", "IncompatibleArgsError"}
    if strings:
        ok |= {"PolyhedralSyntaxException", "PolyhedralSyntaxConvexException"}
    if dicts:
        ok |= {"ContractFormatError"}
    return exc in ok


# ----------------------------------------------------------------------------------------------
# C04: elimination


def judge_transform_term(ev: Event) -> Tuple[Optional[str], List[Finding]]:
    """L1 verdict point: what the dispatcher lets into the result.

    Returns (tag, findings); tag is 'tactic=<k>' for an accepted tactic result, 'declined' ...
    """
    out: List[Finding] = []
    if ev.out != "ret":
        return "raised:%s" % ev.exc, out
    term = _T(ev.args.get("term"))
    ctx = _L(ev.args.get("context"))
    refine = bool(ev.args.get("refine"))
    res = ev.res
    if term is None or ctx is None or not isinstance(res, list) or len(res) < 2:
        return "unreadable", out
    new = _T(res[0])
    num = res[1]
    if new is None:
        out.append(("dispatcher-returned-non-term", "transform_term returned %r" % (res[0],), None))
        return "bad", out
    if not isinstance(num, int) or num <= 0:
        if X.canon(new) != X.canon(term):
            out.append(("decline-changed-term", "dispatcher declined (tactic %r) but changed the term %s into %s" % (
                num, X.fmt_term(term), X.fmt_term(new)), None))
        return "declined", out
    names = X.names_of(term, ctx, new)
    if refine:
        r, w = X.check(X.box(names), X.conj(ctx), X.holds(new), X.viol(term))
    else:
        r, w = X.check(X.box(names), X.conj(ctx), X.holds(term), X.viol(new))
    if r == "unknown":
        out.append(None)  # type: ignore[arg-type]
    elif r == "sat":
        out.append((
            "tactic=%d" % num,
            "tactic %d (%s) turned %s into %s in context %s: not an implication" % (
                num, "refine" if refine else "relax", X.fmt_term(term), X.fmt_term(new), X.fmt_list(ctx)),
            w,
        ))
    return "tactic=%d" % num, out


def judge_elim(ev: Event) -> Tuple[bool, List[Finding]]:
    """L2: return of elim_vars_by_refining / elim_vars_by_relaxing. Returns (nonvacuous, findings)."""
    out: List[Finding] = []
    refine = ev.op.endswith("refining")
    if ev.out != "ret":
        if not is_documented(ev.exc):
            out.append(("exc:%s@%s" % (ev.exc, ev.exc_where), "%s escaped from %s" % (ev.exc, ev.op), None))
        return False, out
    orig = _L(ev.args.get("self"))
    ctx = _L(ev.args.get("context"))
    elim = names_in(ev.args.get("vars_to_elim"))
    res = ev.res
    if orig is None or ctx is None or not isinstance(res, list) or not res:
        return False, out
    new = _L(res[0])
    if new is None:
        out.append(("elim-returned-non-list", "%s returned %r" % (ev.op, res[0]), None))
        return False, out
    names = X.names_of(orig, ctx, new)
    if refine:
        r, w = X.check(X.box(names), X.conj(ctx), X.conj(new), X.anyviol(orig))
    else:
        r, w = X.check(X.box(names), X.conj(ctx), X.conj(orig), X.anyviol(new))
        left = sorted(set(X.list_vars(new)) & set(elim))
        if left:
            out.append(("relax-leftover", "relaxation result still mentions eliminated variables %s: %s" % (
                left, X.fmt_list(new)), None))
    if r == "unknown":
        out.append(None)  # type: ignore[arg-type]
    elif r == "sat":
        out.append((
            "list-level",
            "%s of %s in context %s eliminating %s gave %s: not an implication" % (
                "refinement" if refine else "relaxation", X.fmt_list(orig), X.fmt_list(ctx), elim, X.fmt_list(new)),
            w,
        ))
    return True, out


def attribute(ev: Event, judged: Dict[int, List[Finding]]) -> Optional[str]:
    """Mechanism of a higher-level violation: the first unsound L1 event in the subtree of ev."""
    for e in ev.walk():
        fs = judged.get(e.eid)
        if fs:
            for f in fs:
                if f is not None and f[0].startswith("tactic="):
                    return f[0]
    return None


# ----------------------------------------------------------------------------------------------
# C01 / C02: composition and quotient obligations


def compose_obligation(c1: Dict[str, Any], c2: Dict[str, Any], c: Dict[str, Any]):
    """SAT query refuting C01 for result c of composing c1 and c2."""
    names = X.names_of(c1, c2, c)
    import z3

    concl = z3.Or(X.anyviol(c1["a"]), X.anyviol(c2["a"]), X.anyviol(c["g"]))
    return X.check(X.box(names), X.conj(c["a"]), X.honours(c1), X.honours(c2), concl)


def quotient_obligation(top: Dict[str, Any], c1: Dict[str, Any], qc: Dict[str, Any]):
    """SAT query refuting C02 for quotient qc = top / c1."""
    names = X.names_of(top, c1, qc)
    import z3

    concl = z3.Or(X.anyviol(c1["a"]), X.anyviol(qc["a"]), X.anyviol(top["g"]))
    return X.check(X.box(names), X.conj(top["a"]), X.honours(c1), X.honours(qc), concl)


def wellformed(c: Dict[str, Any]) -> Optional[str]:
    """C06 invariant on a neutral contract snapshot; returns a description of the defect or None."""
    i, o = c["in"], c["out"]
    if len(set(i)) != len(i):
        return "duplicate inputs %s" % i
    if len(set(o)) != len(o):
        return "duplicate outputs %s" % o
    if set(i) & set(o):
        return "inputs and outputs overlap: %s" % sorted(set(i) & set(o))
    av = set(X.list_vars(c["a"]))
    # zero coefficients do not count as mentions
    av = {v for t in c["a"] for v, k in t["c"].items() if k != 0}
    gv = {v for t in c["g"] for v, k in t["c"].items() if k != 0}
    if av - set(i):
        return "assumptions mention non-inputs %s" % sorted(av - set(i))
    if gv - set(i) - set(o):
        return "guarantees mention variables outside the interface %s" % sorted(gv - set(i) - set(o))
    return None


def attribute_tactics(ev: Event) -> Optional[str]:
    """Judge the L1 events below ev and name the first unsound accepted tactic result, if any."""
    for e in ev.walk():
        if e.op == "transform_term":
            _, fs = judge_transform_term(e)
            for f in fs:
                if f is not None and f[0].startswith("tactic="):
                    return f[0]
    return None


def tactics_accepted(ev: Event) -> List[int]:
    out = []
    for e in ev.walk():
        if e.op == "transform_term" and e.out == "ret" and isinstance(e.res, list) and len(e.res) > 1:
            if isinstance(e.res[1], int) and e.res[1] > 0:
                out.append(e.res[1])
    return out


def purity_findings(ev: Event) -> List[Finding]:
    out: List[Finding] = []
    for e in ev.walk():
        if e.mutated and e.op != "linprog":
            out.append(("mutated-operand:%s" % e.op, "%s modified its argument(s) %s" % (e.op, e.mutated), None))
    return out


# ----------------------------------------------------------------------------------------------
# equivalence with the properties' tolerance


def equiv_tol(hyp_common: List[Any], left: List[Dict[str, Any]], right: List[Dict[str, Any]], names: List[str]):
    """Is (common and left) equivalent to (common and right), each direction within tolerance?

    Returns (status, direction, witness): status 'ok' | 'diff' | 'unknown'.
    """
    r1, w1 = X.check(X.box(names), *hyp_common, X.conj(left), X.anyviol(right))
    if r1 == "sat":
        return "diff", "left-does-not-imply-right", w1
    r2, w2 = X.check(X.box(names), *hyp_common, X.conj(right), X.anyviol(left))
    if r2 == "sat":
        return "diff", "right-does-not-imply-left", w2
    if "unknown" in (r1, r2):
        return "unknown", None, None
    return "ok", None, None


# ----------------------------------------------------------------------------------------------
# audit of the LPs solved inside a failing call (mechanism of numerical failures)


def lp_audit(events: Iterable[Event], limit: int = 40) -> Optional[str]:
    """Did the LP solver itself fail inside these calls?

    Every recorded linprog event is re-solved exactly over Q (z3).  Returns
      'lp-solver-wrong-optimum'  when a status-0 answer differs from the exact optimum by more than 1e-6 relative,
      'lp-solver-gave-up'        when the solver reported no optimum although the LP has one (and nothing worse),
      'lp-retry-missing'         when such a report came from the presolved solve of the bounded-LP helper and the
                                 helper did not solve again without presolve (pacti's fault, never a known finding),
      None                       when every LP was answered correctly (or none was recorded).
    The last attempt for an LP (after pacti's own retries) is what counts.
    """
    import numpy as np

    lps = [e for e in events if e.op == "linprog" and e.out == "ret"][:limit * 3]
    # group retries of the same problem (same c, A, b) and keep the last attempt
    last: Dict[str, Event] = {}
    for e in lps:
        try:
            key = X.canon([e.args.get("c"), e.args.get("A_ub"), e.args.get("b_ub")])
        except Exception:  # noqa: BLE001
            continue
        last[key] = e
    verdict = None
    for e in list(last.values())[:limit]:
        try:
            lp = e.res["LP"]
            A = np.array(e.args["A_ub"]["ND"], dtype=float)
            b = np.array(e.args["b_ub"]["ND"], dtype=float).reshape(-1)
            c = np.array(e.args["c"]["ND"], dtype=float).reshape(-1)
            if A.ndim != 2 or A.shape[1] != len(c):
                continue
            rows = [{"c": {"q%d" % j: float(A[i][j]) for j in range(A.shape[1]) if A[i][j] != 0}, "k": float(b[i])}
                    for i in range(len(b))]
            bnd = e.args.get("bounds")
            if bnd is None:
                # scipy's default: every variable >= 0 (the call did not ask for free variables)
                rows += [{"c": {"q%d" % j: -1.0}, "k": 0.0} for j in range(A.shape[1])]
            elif bnd != [None, None]:
                continue  # other bounds are not modelled: no verdict on this LP
            obj = {"q%d" % j: float(-c[j]) for j in range(len(c)) if c[j] != 0}
            kind, val = X.lp_opt(rows, obj, True)
            if kind == "infeasible":
                # infeasible by round-off only (pacti's own b+1-1 moves constants by an ulp, which can make an
                # equality written as two inequalities cross by 1e-16): judge the LP relaxed by 1e-9 relative
                relaxed = [{"c": r["c"], "k": r["k"] + 1e-9 * (1 + abs(r["k"]))} for r in rows]
                kind, val = X.lp_opt(relaxed, obj, True)
        except Exception:  # noqa: BLE001
            continue
        if kind != "opt":
            if kind == "infeasible" and lp["status"] == 0:
                return "lp-solver-wrong-optimum"
            continue
        if lp["status"] == 0 and lp["fun"] is not None:
            got = -float(lp["fun"])
            if abs(got - float(val)) > 1e-6 * (1 + abs(float(val))):
                return "lp-solver-wrong-optimum"
        elif lp["status"] != 0:
            opts = e.args.get("options")
            if isinstance(opts, dict) and isinstance(opts.get("D"), list):  # a dict as snapshotted by probes.snap
                opts = {kv[0]: kv[1] for kv in opts["D"] if isinstance(kv, list) and len(kv) == 2}
            elif not isinstance(opts, dict):
                opts = {}
            if "primal_feasibility_tolerance" in opts and opts.get("presolve") is not False:
                # an LP of the bounded-LP helper (it alone passes tight tolerances) whose last attempt still ran with
                # presolve: the helper drew a conclusion from a presolved solve that reported no optimum, without the
                # second solve it owes - not a failure of the solver
                return "lp-retry-missing"
            verdict = "lp-solver-gave-up"
    return verdict
