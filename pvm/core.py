"""Per-shard context: counters, verdict bookkeeping, sampling, time budget."""
from __future__ import annotations

import random
import time
from collections import Counter
from typing import Any, Dict, List, Optional

from pvm.exact import digest

MAX_VIOL_PER_MECH = 5
MAX_SAMPLES = 4


class Budget(Exception):
    pass


class Ctx:
    def __init__(self, prop: str, tier: str, seed: int, shard: int, nshards: int, soft_s: float = 1e9):
        self.prop = prop
        self.tier = tier
        self.seed = seed
        self.shard = shard
        self.nshards = nshards
        self.rng = random.Random((seed * 1000003 + shard * 7919 + 17) & 0xFFFFFFFF)
        self.counters: Counter = Counter()
        self.evaluations = 0
        self.digests: set = set()
        self.violations: List[Dict[str, Any]] = []
        self._viol_count: Counter = Counter()
        self.samples: List[Any] = []
        self.oracle_inconclusive = 0
        self.monitor_errors: List[str] = []
        self.t0 = time.time()
        self.soft_s = soft_s
        self.truncated = False
        self.replay_mode = False

    # ------------------------------------------------------------------
    def quick(self) -> bool:
        return self.tier != "thorough"

    def n(self, quick: int, thorough: int) -> int:
        """Per-shard share of a total case budget."""
        total = quick if self.quick() else thorough
        return max(1, (total + self.nshards - 1) // self.nshards)

    def mine(self, index: int) -> bool:
        """Deterministic split of an enumerated space across shards."""
        return index % self.nshards == self.shard

    def out_of_time(self) -> bool:
        if time.time() - self.t0 > self.soft_s:
            self.truncated = True
            return True
        return False

    # ------------------------------------------------------------------
    def count(self, name: str, k: int = 1) -> None:
        self.counters[name] += k

    def case_done(self, case: Any, nontrivial: bool, sample: Optional[Any] = None) -> None:
        self.evaluations += 1
        if nontrivial:
            self.digests.add(digest(case))
        if sample is not None and len(self.samples) < MAX_SAMPLES:
            self.samples.append(sample)

    def violation(self, mechanism: str, what: str, case: Any, witness: Any = None, detail: Any = None) -> None:
        self._viol_count[mechanism] += 1
        self.counters["violations:" + mechanism] += 1
        if self._viol_count[mechanism] <= MAX_VIOL_PER_MECH:
            self.violations.append(
                {"property": self.prop, "mechanism": mechanism, "what": what, "case": case, "witness": witness,
                 "detail": detail}
            )

    def inconclusive_case(self, why: str = "oracle") -> None:
        self.oracle_inconclusive += 1
        self.counters["inconclusive:" + why] += 1

    def monitor_error(self, msg: str) -> None:
        self.counters["monitor_errors"] += 1
        if len(self.monitor_errors) < 5:
            self.monitor_errors.append(msg[:2000])

    def result(self) -> Dict[str, Any]:
        return {
            "prop": self.prop,
            "shard": self.shard,
            "evaluations": self.evaluations,
            "digests": sorted(self.digests),
            "counters": dict(self.counters),
            "violations": self.violations,
            "samples": self.samples,
            "oracle_inconclusive": self.oracle_inconclusive,
            "monitor_errors": self.monitor_errors,
            "truncated": self.truncated,
            "wall_s": time.time() - self.t0,
        }
