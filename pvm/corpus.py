"""The repository's own contracts (tests/test_data, examples) as neutral objects.

String-form entries are built with pacti's own parser (the code under test); old-format example files
(dictionaries of machine clauses) are read directly.
"""
from __future__ import annotations

import glob
import json
import os
from typing import Any, Dict, List, Optional

from pvm import env
from pvm import exact as X

_cache: Optional[List[Dict[str, Any]]] = None


def _from_machine(d: Dict[str, Any]) -> Optional[Dict[str, Any]]:
    try:
        return {
            "in": [str(v) for v in d["input_vars"]],
            "out": [str(v) for v in d["output_vars"]],
            "a": [{"c": {str(k): float(v) for k, v in t["coefficients"].items() if float(v) != 0},
                   "k": float(t["constant"])} for t in d["assumptions"]],
            "g": [{"c": {str(k): float(v) for k, v in t["coefficients"].items() if float(v) != 0},
                   "k": float(t["constant"])} for t in d["guarantees"]],
        }
    except Exception:  # noqa: BLE001
        return None


def load() -> List[Dict[str, Any]]:
    """[{file, names, contracts:[neutral...], raw:[entry...]}] for every non-compound corpus file."""
    global _cache
    if _cache is not None:
        return _cache
    from pvm import probes as P

    out: List[Dict[str, Any]] = []
    files = sorted(glob.glob(os.path.join(env.REPO, "tests", "test_data", "polyhedral_contracts", "*.json"))
                   + glob.glob(os.path.join(env.REPO, "tests", "test_data", "behavior_contracts", "*.json"))
                   + glob.glob(os.path.join(env.REPO, "examples", "**", "*.json"), recursive=True))
    for f in files:
        try:
            with open(f) as fh:
                data = json.load(fh)
        except Exception:  # noqa: BLE001
            continue
        names: List[str] = []
        cs: List[Dict[str, Any]] = []
        raws: List[Any] = []
        entries: List[Any] = []
        if isinstance(data, list):
            entries = [(e.get("name", "?"), e.get("type"), e.get("data")) for e in data if isinstance(e, dict)]
        elif isinstance(data, dict):
            entries = [(k, "PolyhedralIoContract_machine", v) for k, v in data.items() if isinstance(v, dict)]
        for name, typ, d in entries:
            c = None
            if typ == "PolyhedralIoContract_machine":
                c = _from_machine(d)
            elif typ == "PolyhedralIoContract":
                try:
                    obj = P.PolyhedralIoContract.from_strings(**d, simplify=False)
                    c = X.snap_contract(obj)
                except Exception:  # noqa: BLE001
                    c = None
            if c is not None:
                names.append(name)
                cs.append(c)
                raws.append({"type": typ, "data": d})
        if cs:
            out.append({"file": os.path.relpath(f, env.REPO), "names": names, "contracts": cs, "raw": raws})
    _cache = out
    return out


def perturb(rng, c: Dict[str, Any]) -> Dict[str, Any]:
    """Seeded perturbation: constants jittered on a dyadic grid, a term duplicated or scaled."""
    def jt(t):
        k = t["k"]
        r = rng.random()
        if r < 0.5:
            k = k + rng.choice([-0.5, -0.25, 0.25, 0.5, 1.0]) * rng.choice([1.0, 0.125, 2.0])
        return {"c": dict(t["c"]), "k": k}

    a = [jt(t) for t in c["a"]]
    g = [jt(t) for t in c["g"]]
    for lst in (a, g):
        if lst and rng.random() < 0.3:
            t = rng.choice(lst)
            f = rng.choice([2.0, 0.5, 3.0])
            lst.append({"c": {v: x * f for v, x in t["c"].items()}, "k": t["k"] * f} if rng.random() < 0.5
                       else {"c": dict(t["c"]), "k": t["k"]})
    return {"in": list(c["in"]), "out": list(c["out"]), "a": a, "g": g}
