"""Attachment of recording wrappers to the real pacti functions, the event forest, builders.

No source change in the repository is needed: every observation point is a class attribute, a
module global or a dict entry that is wrapped from here.  A wrapper records the call (deep
snapshots of self and all arguments) before invoking, the return / raise after, re-snapshots the
arguments afterwards (purity), never swallows or alters the outcome, and counts its evaluations.
"""
from __future__ import annotations

import inspect
import os
import traceback
from collections import Counter
from typing import Any, Callable, Dict, List, Optional

from pvm import env
from pvm.exact import canon, snap_contract, snap_list, snap_term, vname

pacti = env.bind()

import numpy as np  # noqa: E402
import pacti.contracts.polyhedral_iocontract as pic_mod  # noqa: E402
import pacti.iocontract.compundiocontract as cmp_mod  # noqa: E402
import pacti.iocontract.iocontract as ioc_mod  # noqa: E402
import pacti.terms.polyhedra.polyhedra as poly_mod  # noqa: E402
import pacti.terms.polyhedra.serializer as ser_mod  # noqa: E402
from pacti.utils.errors import (  # noqa: E402
    ContractFormatError,
    IncompatibleArgsError,
    PolyhedralSyntaxConvexException,
    PolyhedralSyntaxException,
)

Var = ioc_mod.Var
IoContract = ioc_mod.IoContract
PolyhedralTerm = poly_mod.PolyhedralTerm
PolyhedralTermList = poly_mod.PolyhedralTermList
PolyhedralIoContract = pic_mod.PolyhedralIoContract
PolyhedralIoContractCompound = pic_mod.PolyhedralIoContractCompound
NestedPolyhedra = pic_mod.NestedPolyhedra
NestedTermList = cmp_mod.NestedTermList
IoContractCompound = cmp_mod.IoContractCompound

# --------------------------------------------------------------------------------------
# builders (neutral -> pacti objects)


def mk_var(n: str) -> Any:
    return Var(n)


def mk_term(t: Dict[str, Any]) -> Any:
    return PolyhedralTerm({Var(v): c for v, c in t["c"].items()}, t["k"])


def mk_list(tl: List[Dict[str, Any]]) -> Any:
    return PolyhedralTermList([mk_term(t) for t in tl])


def mk_contract(c: Dict[str, Any], simplify: bool = False) -> Any:
    return PolyhedralIoContract(
        assumptions=mk_list(c["a"]),
        guarantees=mk_list(c["g"]),
        input_vars=[Var(v) for v in c["in"]],
        output_vars=[Var(v) for v in c["out"]],
        simplify=simplify,
    )


# --------------------------------------------------------------------------------------
# generic snapshots


def snap(o: Any, depth: int = 0) -> Any:  # noqa: C901
    """Deep structural snapshot of anything that crosses a monitored boundary."""
    if o is None or isinstance(o, (bool, int, str)):
        return o
    if isinstance(o, float):
        return o
    if isinstance(o, (np.floating, np.integer)):
        return o.item()
    if isinstance(o, np.ndarray):
        return {"ND": o.tolist()}
    if depth > 8:
        return "<deep>"
    d = getattr(o, "__dict__", None)
    if d is not None:
        if "variables" in d and "constant" in d:
            try:
                return {"T": snap_term(o), "order": [vname(v) for v in o.variables]}
            except Exception:  # noqa: BLE001
                return {"T?": repr(o)}
        if "terms" in d:
            try:
                return {"L": snap_list(o), "order": [[vname(v) for v in t.variables] for t in o.terms]}
            except Exception:  # noqa: BLE001
                return {"L?": repr(o)}
        if "inputvars" in d and "a" in d and "nested_termlist" in getattr(d.get("a"), "__dict__", {}):
            return {
                "CC": {
                    "in": [vname(v) for v in o.inputvars],
                    "out": [vname(v) for v in o.outputvars],
                    "a": snap(o.a, depth + 1),
                    "g": snap(o.g, depth + 1),
                }
            }
        if "inputvars" in d and "a" in d and "g" in d:
            try:
                return {"C": snap_contract(o)}
            except Exception:  # noqa: BLE001
                return {"C?": repr(o)}
        if "nested_termlist" in d:
            return {"N": [snap(x, depth + 1) for x in o.nested_termlist]}
        if "_name" in d:
            return {"V": vname(o)}
    if isinstance(o, (list, tuple)):
        return [snap(x, depth + 1) for x in o]
    if isinstance(o, dict):
        if "status" in o and "fun" in o and "x" in o:  # scipy OptimizeResult
            return {"LP": {"status": snap(o.get("status")), "fun": snap(o.get("fun")),
                           "x": snap(o.get("x")).get("ND") if o.get("x") is not None else None}}
        return {"D": [[snap(k, depth + 1), snap(v, depth + 1)] for k, v in o.items()]}
    if isinstance(o, (set, frozenset)):
        return {"S": sorted(canon(snap(x, depth + 1)) for x in o)}
    return {"?": type(o).__name__}


def exc_origin(e: BaseException) -> str:
    """Innermost pacti function on the traceback of e (for C14 mechanisms)."""
    where = "?"
    try:
        for fs in traceback.extract_tb(e.__traceback__):
            if fs.filename.startswith(env.SRC + os.sep):
                where = fs.name
    except Exception:  # noqa: BLE001
        pass
    return where


def exc_class(e: BaseException) -> str:
    return type(e).__name__


class Event:
    __slots__ = ("op", "args", "out", "res", "exc", "exc_where", "exc_obj", "children", "parent", "mutated",
                 "raw_args", "raw_res", "eid")

    def __init__(self, op: str, parent: Optional["Event"]):
        self.op = op
        self.parent = parent
        self.children: List[Event] = []
        self.args: Dict[str, Any] = {}
        self.out = "?"
        self.res: Any = None
        self.exc: Optional[str] = None
        self.exc_where: Optional[str] = None
        self.exc_obj: Optional[BaseException] = None
        self.mutated: List[str] = []
        self.raw_args: Dict[str, Any] = {}
        self.raw_res: Any = None
        self.eid = 0

    def walk(self):
        yield self
        for c in self.children:
            yield from c.walk()

    def brief(self) -> Dict[str, Any]:
        return {"op": self.op, "args": self.args, "out": self.out, "res": self.res, "exc": self.exc,
                "exc_where": self.exc_where}


class Recorder:
    """Event forest of the monitored calls made by the workload of one case."""

    def __init__(self) -> None:
        self.stack: List[Event] = []
        self.roots: List[Event] = []
        self.counts: Counter = Counter()
        self.enabled = True
        self.keep_raw = False
        self._n = 0
        self._undo: List[Callable[[], None]] = []
        self.max_events = 20000

    # -- lifecycle
    def reset(self) -> None:
        self.stack = []
        self.roots = []
        self._n = 0

    def detach(self) -> None:
        for u in reversed(self._undo):
            u()
        self._undo = []

    def events(self):
        for r in self.roots:
            yield from r.walk()

    # -- wrapping
    def _wrap(self, label: str, orig: Callable, has_self: bool) -> Callable:
        rec = self
        try:
            sig = inspect.signature(orig)
        except (TypeError, ValueError):
            sig = None

        def wrapper(*a: Any, **k: Any) -> Any:
            if not rec.enabled or rec._n >= rec.max_events:
                return orig(*a, **k)
            rec.counts[label] += 1
            parent = rec.stack[-1] if rec.stack else None
            ev = Event(label, parent)
            rec._n += 1
            ev.eid = rec._n
            named: Dict[str, Any]
            try:
                if sig is not None:
                    ba = sig.bind(*a, **k)
                    ba.apply_defaults()
                    named = dict(ba.arguments)
                else:
                    raise TypeError
            except TypeError:
                named = {"arg%d" % i: x for i, x in enumerate(a)}
                named.update(k)
            before = {n: snap(v) for n, v in named.items()}
            ev.args = before
            if rec.keep_raw:
                ev.raw_args = named
            (parent.children if parent else rec.roots).append(ev)
            rec.stack.append(ev)
            try:
                r = orig(*a, **k)
            except BaseException as e:  # noqa: BLE001
                rec.stack.pop()
                ev.out = "raise"
                ev.exc = exc_class(e)
                ev.exc_where = exc_origin(e)
                ev.exc_obj = e
                rec._purity(ev, named, before)
                raise
            rec.stack.pop()
            ev.out = "ret"
            ev.res = snap(r)
            if rec.keep_raw:
                ev.raw_res = r
            rec._purity(ev, named, before)
            return r

        wrapper.__wrapped__ = orig  # type: ignore[attr-defined]
        wrapper.__name__ = getattr(orig, "__name__", label)
        return wrapper

    @staticmethod
    def _purity(ev: Event, named: Dict[str, Any], before: Dict[str, Any]) -> None:
        if ev.op.endswith(".__init__") or ev.op.endswith("IoContract.simplify"):
            # constructors initialise self; IoContract.simplify is documented as in-place
            names = [n for n in named if n != "self"]
        else:
            names = list(named)
        for n in names:
            try:
                if canon(snap(named[n])) != canon(before[n]):
                    ev.mutated.append(n)
            except Exception:  # noqa: BLE001
                ev.mutated.append(n + "?")

    def attach_method(self, cls: Any, name: str, label: Optional[str] = None) -> bool:
        """Wrap a plain method / staticmethod / classmethod defined on cls (not inherited)."""
        raw = cls.__dict__.get(name)
        if raw is None:
            return False
        label = label or "%s.%s" % (cls.__name__, name)
        if isinstance(raw, staticmethod):
            new: Any = staticmethod(self._wrap(label, raw.__func__, False))
        elif isinstance(raw, classmethod):
            return False
        elif callable(raw):
            new = self._wrap(label, raw, True)
        else:
            return False
        setattr(cls, name, new)
        self._undo.append(lambda: setattr(cls, name, raw))
        return True

    def attach_global(self, mod: Any, name: str, label: Optional[str] = None) -> bool:
        raw = getattr(mod, name, None)
        if raw is None or not callable(raw):
            return False
        label = label or "%s.%s" % (mod.__name__.split(".")[-1], name)
        setattr(mod, name, self._wrap(label, raw, False))
        self._undo.append(lambda: setattr(mod, name, raw))
        return True

    def attach_dict(self, dct: Dict[Any, Any], key: Any, label: str) -> bool:
        raw = dct.get(key)
        if raw is None or not callable(raw):
            return False
        dct[key] = self._wrap(label, raw, False)
        self._undo.append(lambda: dct.__setitem__(key, raw))
        return True


# --------------------------------------------------------------------------------------
# the standard attachment sets

L2_METHODS = ["elim_vars_by_refining", "elim_vars_by_relaxing", "simplify", "refines", "is_empty",
              "contains_behavior", "evaluate", "optimize"]
L3_IOC = ["__init__", "compose_tactics", "quotient_tactics", "merge", "rename_variable", "copy", "refines",
          "simplify", "contains_environment", "contains_implementation"]
L3_PIC = ["from_dict", "from_strings", "to_dict", "to_machine_dict", "rename_variables", "optimize",
          "get_variable_bounds", "compose", "quotient", "compose_tactics", "quotient_tactics"]


def attach_l0(rec: Recorder) -> None:
    rec.attach_global(poly_mod, "linprog", "linprog")


def attach_l1(rec: Recorder) -> None:
    tac = getattr(PolyhedralTermList, "TACTICS", None)
    if isinstance(tac, dict):
        for k in list(tac):
            rec.attach_dict(tac, k, "tactic%s" % k)
    rec.attach_method(PolyhedralTermList, "_transform_term", "transform_term")


def attach_l2(rec: Recorder, names: Optional[List[str]] = None) -> None:
    for n in names or L2_METHODS:
        rec.attach_method(PolyhedralTermList, n, "PTL." + n)


def attach_l3(rec: Recorder, ioc: Optional[List[str]] = None, pic: Optional[List[str]] = None) -> None:
    for n in (L3_IOC if ioc is None else ioc):
        rec.attach_method(IoContract, n, "IoContract." + n)
    for n in (L3_PIC if pic is None else pic):
        rec.attach_method(PolyhedralIoContract, n, "PIC." + n)


def attach_standard(rec: Recorder, l0: bool = False, l1: bool = True, l2: bool = True, l3: bool = True) -> None:
    if l0:
        attach_l0(rec)
    if l1:
        attach_l1(rec)
    if l2:
        attach_l2(rec)
    if l3:
        attach_l3(rec)


DOCUMENTED = (ValueError,)  # IncompatibleArgsError is a ValueError subclass


def allowed_exception(e: BaseException, strings: bool = False, dicts: bool = False) -> bool:
    """C14: is e one of the documented failure types for this kind of operation?"""
    if isinstance(e, (IncompatibleArgsError, ValueError)):
        return True
    if strings and isinstance(e, (PolyhedralSyntaxException, PolyhedralSyntaxConvexException)):
        return True
    if dicts and isinstance(e, ContractFormatError):
        return True
    return False


# --------------------------------------------------------------------------------------
# every public entry point (used by the cross-cutting monitors of C13 / C14)

import pacti.utils.fileio as fileio_mod  # noqa: E402

try:
    import pacti.utils.plots as plots_mod  # noqa: E402
except Exception:  # noqa: BLE001  matplotlib missing or broken: C18 will report it
    plots_mod = None

STRING_OPS = ("from_strings", "polyhedral_termlist_from_string", "PIC.optimize", "PIC.get_variable_bounds",
              "read_contracts_from_file")
DICT_OPS = ("from_dict", "validate_contract_dict", "read_contracts_from_file")


def attach_public(rec: Recorder) -> None:
    attach_l2(rec)
    attach_l3(rec)
    for n in ("__init__", "contains_behavior", "intersect", "simplify", "copy", "__le__"):
        rec.attach_method(NestedTermList, n, "Nested." + n)
    for n in ("__init__", "merge"):
        rec.attach_method(IoContractCompound, n, "Compound." + n)
    for n in ("from_strings", "to_dict"):
        rec.attach_method(PolyhedralIoContractCompound, n, "PICC." + n)
    rec.attach_method(PolyhedralTermList, "to_str_list", "PTL.to_str_list")
    rec.attach_global(ser_mod, "polyhedral_termlist_from_string", "ser.polyhedral_termlist_from_string")
    rec.attach_global(ser_mod, "validate_contract_dict", "ser.validate_contract_dict")
    rec.attach_global(fileio_mod, "read_contracts_from_file", "fileio.read_contracts_from_file")
    rec.attach_global(fileio_mod, "write_contracts_to_file", "fileio.write_contracts_to_file")
    if plots_mod is not None:
        rec.attach_global(plots_mod, "constraints_to_vertices", "plots.constraints_to_vertices")


def op_allows(label: str) -> Dict[str, bool]:
    return {"strings": any(s in label for s in STRING_OPS), "dicts": any(s in label for s in DICT_OPS)}
