"""Re-execute one recorded case against the current tree and re-judge it.

    python -m pvm.replay replays/C04/<digest>.json [-v]
"""
from __future__ import annotations

import importlib
import json
import sys


def main(argv) -> int:
    path = argv[0]
    verbose = "-v" in argv
    with open(path) as f:
        rp = json.load(f)
    from pvm import env

    env.bind()
    from pvm.core import Ctx

    prop = rp["property"]
    mod = importlib.import_module("pvm.checks." + prop.lower())
    ctx = Ctx(prop, rp.get("tier", "quick"), int(rp.get("seed", 0)), 0, 1)
    ctx.replay_mode = True
    mod.replay(ctx, rp["case"])
    print("recorded: mechanism=%s : %s" % (rp.get("mechanism"), (rp.get("what") or "")[:500]))
    if ctx.violations:
        for v in ctx.violations:
            print("REPRODUCED VIOLATION property=%s mechanism=%s : %s" % (prop, v["mechanism"], v["what"][:1500]))
            if v.get("witness"):
                print("  witness:", v["witness"])
        rc = 1
    else:
        print("not reproduced on the current tree (held)")
        rc = 0
    if verbose:
        print(json.dumps(rp["case"], indent=1)[:6000])
        print(dict(ctx.counters))
    return rc


if __name__ == "__main__":
    sys.exit(main(sys.argv[1:]))
