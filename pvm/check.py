"""CLI registered in MANIFEST.json:  python -m pvm.check C01 --tier quick

Spawns one worker process per shard (subprocess, with a hard timeout), merges their results,
applies the known-findings file, writes evidence/<id>.json and replay files, prints
VIOLATION / KNOWN-FINDING / INCONCLUSIVE lines and exits 0 / 1 / 2.
"""
from __future__ import annotations

import argparse
import importlib
import json
import os
import subprocess
import sys
import tempfile
import time
from collections import Counter
from typing import Any, Dict, List

from pvm import env
from pvm.exact import digest

NSHARDS_DEFAULT = 16


def load_known() -> List[Dict[str, Any]]:
    p = os.path.join(env.VERIF, "known_findings.json")
    if not os.path.exists(p):
        return []
    with open(p) as f:
        return json.load(f).get("findings", [])


def run_shards(prop: str, tier: str, seed: int, nshards: int, soft_s: float, hard_s: float) -> List[Dict[str, Any]]:
    work = tempfile.mkdtemp(prefix="pvm_%s_" % prop, dir=os.environ.get("PVM_WORK") or None)
    procs = []
    envv = dict(os.environ)
    envv["PYTHONHASHSEED"] = "0"
    envv["PYTHONPATH"] = env.VERIF + os.pathsep + envv.get("PYTHONPATH", "")
    envv["MPLBACKEND"] = "Agg"
    envv["OMP_NUM_THREADS"] = "1"
    envv["OPENBLAS_NUM_THREADS"] = "1"
    envv[env.GUARD] = "1"
    results = []
    try:
        for i in range(nshards):
            out = os.path.join(work, "shard%d.json" % i)
            log = open(os.path.join(work, "shard%d.log" % i), "w")
            p = subprocess.Popen(
                [sys.executable, "-m", "pvm.shard", prop, tier, str(seed), str(i), str(nshards), out, str(soft_s)],
                cwd=env.VERIF, env=envv, stdout=log, stderr=subprocess.STDOUT,
            )
            procs.append((i, p, out, log))
        deadline = time.time() + hard_s
        for i, p, out, log in procs:
            try:
                p.wait(timeout=max(1.0, deadline - time.time()))
            except subprocess.TimeoutExpired:
                p.kill()
                p.wait()
                results.append({"fatal": "shard %d: hard timeout after %.0fs" % (i, hard_s), "timeout": True})
                log.close()
                continue
            log.close()
            if os.path.exists(out):
                try:
                    with open(out) as f:
                        results.append(json.load(f))
                    continue
                except Exception as e:  # noqa: BLE001
                    results.append({"fatal": "shard %d: unreadable result (%s)" % (i, e)})
                    continue
            tail = ""
            try:
                with open(os.path.join(work, "shard%d.log" % i)) as f:
                    tail = f.read()[-1500:]
            except Exception:  # noqa: BLE001
                pass
            results.append({"fatal": "shard %d: exit %s without result: %s" % (i, p.returncode, tail)})
    finally:
        import shutil

        shutil.rmtree(work, ignore_errors=True)
    return results


def main(argv=None) -> int:  # noqa: C901
    ap = argparse.ArgumentParser()
    ap.add_argument("prop")
    ap.add_argument("--tier", default=None)
    ap.add_argument("--shards", type=int, default=None)
    ap.add_argument("--seed", type=int, default=None)
    ap.add_argument("--no-evidence", action="store_true")
    a = ap.parse_args(argv)
    prop = a.prop.upper()
    tier = a.tier or os.environ.get("VERIF_TIER") or "quick"
    if tier not in ("quick", "thorough"):
        tier = "quick"
    seed = a.seed if a.seed is not None else env.seed_from_env(0)
    t0 = time.time()

    sys.path.insert(0, env.VERIF)
    # the check module's metadata is read without importing pacti in this process
    meta = importlib.import_module("pvm.checks.meta").META[prop]
    nshards = a.shards or meta.get("shards", NSHARDS_DEFAULT)
    soft_s = meta.get("soft_s", {}).get(tier, 240.0 if tier == "quick" else 2400.0)
    hard_s = soft_s * 1.5 + 300

    try:
        env.ensure_deps()  # once, in the parent: the workers must not race to install icontract
    except Exception:  # noqa: BLE001
        pass
    results = run_shards(prop, tier, seed, nshards, soft_s, hard_s)

    fatal = [r["fatal"] for r in results if "fatal" in r]
    good = [r for r in results if "fatal" not in r]
    counters: Counter = Counter()
    digests = set()
    violations: List[Dict[str, Any]] = []
    samples: List[Any] = []
    evaluations = 0
    inconcl = 0
    monitor_errors: List[str] = []
    truncated = 0
    oracle = Counter()
    line_hits: Dict[str, set] = {}
    for r in good:
        for f, ls in (r.get("line_hits") or {}).items():
            line_hits.setdefault(f, set()).update(ls)
        counters.update(r["counters"])
        digests.update(r["digests"])
        violations.extend(r["violations"])
        if len(samples) < 4:
            samples.extend(r["samples"][:1])
        evaluations += r["evaluations"]
        inconcl += r["oracle_inconclusive"]
        monitor_errors.extend(r["monitor_errors"])
        truncated += 1 if r["truncated"] else 0
        oracle.update(r.get("oracle_stats", {}))
    if not samples:
        for r in good:
            samples.extend(r["samples"][:2])

    # ---------------- verdict
    known = [k for k in load_known() if k.get("property") == prop and k.get("status") == "open"]
    def is_known(m: str) -> bool:
        # an open entry names a mechanism exactly, or the suffix that the classifier appends when the cause is
        # established from the recorded execution (e.g. ':lp-solver-wrong-optimum')
        for k in known:
            if k.get("mechanism") == m:
                return True
            suf = k.get("mechanism_suffix")
            if suf and m.endswith(suf):
                return True
        return False

    lines: List[str] = []
    new_viol: Dict[str, Dict[str, Any]] = {}
    known_seen: Dict[str, Dict[str, Any]] = {}
    for v in violations:
        m = v["mechanism"]
        if is_known(m):
            known_seen.setdefault(m, v)
        else:
            new_viol.setdefault(m, v)
    n_viol_total = sum(c for k, c in counters.items() if k.startswith("violations:")
                       and not is_known(k[len("violations:"):]))
    for m, v in known_seen.items():
        lines.append("KNOWN-FINDING: property=%s %s -- %s" % (prop, m, v["what"][:300].replace("\n", " ")))
    rdir = os.path.join(env.VERIF, "replays", prop)
    for m, v in new_viol.items():
        os.makedirs(rdir, exist_ok=True)
        path = os.path.join(rdir, digest([m, v["case"]]) + ".json")
        with open(path, "w") as f:
            json.dump({"property": prop, "mechanism": m, "what": v["what"], "case": v["case"],
                       "witness": v.get("witness"), "detail": v.get("detail"), "seed": seed, "tier": tier}, f,
                      indent=1)
        lines.append("VIOLATION property=%s replay=%s" % (prop, path))
        lines.append("  mechanism=%s : %s" % (m, v["what"][:600].replace("\n", " ")))

    required = meta.get("required", [])
    missing = [c for c in required if counters.get(c, 0) <= 0]
    reasons: List[str] = []
    if fatal:
        reasons.append("worker-failure: " + fatal[0][:400].replace("\n", " | "))
    if missing:
        reasons.append("reach-counter-zero: " + ",".join(missing))
    if monitor_errors:
        reasons.append("monitor-error: " + monitor_errors[0][-400:].replace("\n", " | "))
    if evaluations and inconcl > 0.01 * evaluations:
        reasons.append("oracle-inconclusive: %d of %d cases" % (inconcl, evaluations))
    if evaluations == 0:
        reasons.append("no-cases-executed")

    if new_viol:
        code = env.EXIT_VIOLATION
    elif reasons:
        code = env.EXIT_INCONCLUSIVE
        for r in reasons:
            lines.append("INCONCLUSIVE property=%s reason=%s" % (prop, r))
    else:
        code = env.EXIT_HELD

    wall = time.time() - t0
    # ---------------- evidence
    if not a.no_evidence:
        cov: Dict[str, Any] = {
            "evaluations": int(evaluations),
            "distinct_nontrivial": len(digests),
            "rule": meta["rule"],
            "samples": samples[:4] if samples else ["<none>"],
            "exhaustive": bool(meta.get("exhaustive", False)),
            "reach_counters": {k: v for k, v in sorted(counters.items()) if not k.startswith("violations:")},
            "required_counters": required,
            "oracle_queries": int(oracle.get("queries", 0)),
            "oracle_unknown": int(oracle.get("unknown", 0)),
            "oracle_inconclusive_cases": int(inconcl),
            "known_findings_seen": sorted(known_seen),
            "shards": len(good),
            "shards_failed": len(fatal),
            "shards_truncated_by_time": truncated,
            "verdict": {0: "held-on-observed", 1: "violated", 2: "inconclusive"}[code],
            "inconclusive_reasons": reasons,
        }
        try:
            from pvm import covmon

            cov["source_line_reach"] = covmon.summarise(env.SRC, {f: sorted(v) for f, v in line_hits.items()})
        except Exception as e:  # noqa: BLE001
            cov["source_line_reach"] = {"error": str(e)[:200]}
        if meta.get("exhaustive_note"):
            cov["exhaustive_note"] = meta["exhaustive_note"]
        ev = {
            "property_id": prop,
            "tier": tier,
            "seed": int(seed),
            "level": meta["level"],
            "coverage": cov,
            "assumptions": meta.get("assumptions", []),
            "wall_s": round(wall, 2),
            "violations": int(n_viol_total),
        }
        os.makedirs(os.path.join(env.VERIF, "evidence"), exist_ok=True)
        with open(os.path.join(env.VERIF, "evidence", prop + ".json"), "w") as f:
            json.dump(ev, f, indent=1, sort_keys=True)

    for ln in lines:
        print(ln)
    print("%s tier=%s seed=%d: %s; cases=%d distinct_nontrivial=%d violations=%d known=%d wall=%.1fs" % (
        prop, tier, seed, {0: "HELD on everything observed", 1: "VIOLATED", 2: "INCONCLUSIVE"}[code], evaluations,
        len(digests), n_viol_total, len(known_seen), wall))
    return code


if __name__ == "__main__":
    sys.exit(main())
